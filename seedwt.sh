#!/bin/bash
# usage: seedwt.sh <id> <patch file> [name]  -- applies a seeded change to a scratch worktree of /repo HEAD (outside /repo and
# /verif), runs the property's quick check there (VERIF_REPO/VERIF_DIR), removes the worktree. /repo is never touched.
id=$1; patch=$2; name=${3:-$(basename $(dirname $patch))}
root=${SEEDWT_TMP:-/var/tmp/verif-seedwt}; mkdir -p $root
wt="$root/wt-$id-$name-$$"; vd="$root/vd-$id-$name-$$"
export PATH=/opt/veriftools/go1.26.8/bin:$PATH GOFLAGS=-mod=mod GOPROXY=off GOSUMDB=off GOTOOLCHAIN=local
git -C /repo worktree add --detach -f "$wt" HEAD >/dev/null 2>&1 || { echo "$id $name SETUP-FAILED"; exit 2; }
mkdir -p "$vd"
for f in props.json known_findings.txt spec replay bounded solver_hints.json; do ln -s /verif/$f "$vd/$f"; done
if ! git -C "$wt" apply "$patch" 2>/dev/null; then echo "$id $name PATCH-DOES-NOT-APPLY"; git -C /repo worktree remove --force "$wt"; rm -rf "$vd"; exit 2; fi
out=$(VERIF_REPO="$wt" VERIF_DIR="$vd" /verif/bin/govc check "$id" --tier quick 2>&1); rc=$?
v=$(echo "$out" | grep -c '^VIOLATION')
first=$(echo "$out" | grep '^VIOLATION' | head -3 | sed 's/.*replay=[^ ]*\/\([^/ ]*\)\.json.*/\1/' | tr '\n' ' ')
und=$(echo "$out" | grep '^UNDECIDED' | head -1 | cut -c1-160)
if [ $rc -eq 1 ] && [ "$v" -gt 0 ]; then res=CAUGHT; else res="MISSED(rc=$rc)"; fi
echo "$id $name $res violations=$v first=$first $und"
git -C /repo worktree remove --force "$wt" >/dev/null 2>&1; rm -rf "$vd"

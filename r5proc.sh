#!/bin/bash
# usage: r5proc.sh <id>  -- confirm the three round-5 seeds of <id> from /tmp/seed5/<id>/out and store them as /verif/seeded/<id>-r5m<k>
id=$1
for k in 1 2 3; do
  src=/tmp/seed5/$id/out/m$k; [ -f $src/patch.diff ] || { echo "$id m$k: missing"; continue; }
  d=/tmp/seed5/$id/r5m$k; rm -rf $d; cp -r $src $d
  /verif/confirm_seed.sh $id $d 2>&1 | tail -1
done

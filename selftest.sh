#!/bin/bash
# Must-fail corpus: every seeded change under /verif/seeded/<id>-m<k>/patch.diff and one canary per
# repaired defect (the fix: commit reverted) is applied to a scratch worktree of /repo (outside /repo
# and /verif) and the quick check of its property must report a violation there.
# Usage: selftest.sh [jobs]          results: stdout and /verif/selftest_last.txt
# Scratch: $SELFTEST_TMP (default /var/tmp/verif-selftest), removed at the end.
jobs=${1:-6}
root=${SELFTEST_TMP:-/var/tmp/verif-selftest}
rm -rf "$root"; mkdir -p "$root"
export PATH=/opt/veriftools/go1.26.8/bin:$PATH GOFLAGS=-mod=mod GOPROXY=off GOSUMDB=off GOTOOLCHAIN=local
cd /verif || exit 2

cases=()
for d in /verif/seeded/*/; do
  n=$(basename "$d"); id=${n%%-*}
  [ -f "$d/patch.diff" ] && cases+=("seed:$n:$id:$d/patch.diff")
done
# canaries: known_findings "fixed:" entries -> revert that commit
while read -r line; do
  id=$(echo "$line" | sed -n 's/^fixed: property=\([A-Z0-9]*\) \([0-9a-f]*\) .*/\1/p')
  c=$(echo "$line" | sed -n 's/^fixed: property=\([A-Z0-9]*\) \([0-9a-f]*\) .*/\2/p')
  [ -n "$id" ] && cases+=("canary:revert-$c:$id:$c")
done < /verif/known_findings.txt

run_case() {
  IFS=: read -r kind name id arg <<< "$1"
  wt="$root/wt-$name"; vd="$root/vd-$name"
  git -C /repo worktree add --detach -f "$wt" HEAD >/dev/null 2>&1 || { echo "$kind $name $id SETUP-FAILED"; return; }
  mkdir -p "$vd"
  for f in props.json known_findings.txt spec replay bounded; do ln -s /verif/$f "$vd/$f"; done
  if [ "$kind" = seed ]; then
    git -C "$wt" apply "$arg" 2>/dev/null || { echo "$kind $name $id PATCH-DOES-NOT-APPLY"; git -C /repo worktree remove --force "$wt"; return; }
  else
    git -C "$wt" revert --no-commit "$arg" >/dev/null 2>&1 || { echo "$kind $name $id REVERT-FAILED"; git -C /repo worktree remove --force "$wt"; return; }
  fi
  out=$(VERIF_REPO="$wt" VERIF_DIR="$vd" /verif/bin/govc check "$id" --tier quick 2>&1); rc=$?
  v=$(echo "$out" | grep -c '^VIOLATION')
  repro=$(echo "$out" | grep '^VIOLATION' | grep -vc 'no-failing-input-found')
  first=$(echo "$out" | grep '^VIOLATION' | head -1 | sed 's/.*replay=[^ ]*\/\([^/ ]*\)\.json.*/\1/')
  if [ $rc -eq 1 ] && [ "$v" -gt 0 ]; then res=CAUGHT; else res="MISSED(rc=$rc)"; fi
  echo "$kind $name $id $res violations=$v reproduced=$repro first=$first"
  git -C /repo worktree remove --force "$wt" >/dev/null 2>&1
  rm -rf "$vd"
}
export -f run_case; export root
printf '%s\n' "${cases[@]}" | xargs -P "$jobs" -I{} bash -c 'run_case "$@"' _ {} | sort | tee /verif/selftest_last.txt
git -C /repo worktree prune
rm -rf "$root"
miss=$(grep -c 'MISSED\|FAILED\|DOES-NOT' /verif/selftest_last.txt)
echo "selftest: $(grep -c CAUGHT /verif/selftest_last.txt) caught, $miss not caught"

package bitlist

// BOUNDED stand-in for C11 (CompactBitList): every unit width 1..64, unit indices 0..47 (all 16 word
// alignments and 1-, 2-, 3-, 4- and 5-word straddles), against a plain []uint64 reference model.
// Not a proof: the bound is stated in the evidence.

import (
	"fmt"
	"os"
	"testing"
)

func TestVerifBounded_Bitlist(t *testing.T) {
	cases, distinct := 0, 0
	for u := 1; u <= 64; u++ {
		mask := ^uint64(0)
		if u < 64 {
			mask = (uint64(1) << uint(u)) - 1
		}
		patterns := []uint64{0, mask, mask & 0xAAAAAAAAAAAAAAAA, mask & 0x5555555555555555, 1, mask &^ 1, mask & 0x8000800080008001, mask & 0x0123456789ABCDEF, mask & 0xFEDCBA9876543210}
		for pi, p0 := range patterns {
			l := NewCompactBitList(u)
			ref := make([]uint64, 48)
			seed := uint64(u*131 + pi*7919 + 1)
			// writes in a scattered order, with overwrites
			for step := 0; step < 96; step++ {
				seed = seed*6364136223846793005 + 1442695040888963407
				idx := int((seed >> 33) % 48)
				val := (p0 ^ (seed >> 7)) & mask
				if step < 48 {
					idx = (step * 7) % 48
					val = p0
					if step%3 == 1 {
						val = (p0 >> 1) & mask
					}
				}
				l.Set(idx, val)
				ref[idx] = val
				cases++
				// the written unit and its neighbours
				for _, k := range []int{idx - 1, idx, idx + 1} {
					if k < 0 || k >= 48 {
						continue
					}
					if got := l.Get(k); got != ref[k] && (k <= maxSet(ref, l)) {
						fmt.Printf("BOUNDED-VIOLATION: unitBitSize=%d after Set(%d,%#x): Get(%d)=%#x want %#x\n", u, idx, val, k, got, ref[k])
						t.FailNow()
					}
				}
			}
			for k := 0; k < 48; k++ {
				if got := l.Get(k); got != ref[k] {
					fmt.Printf("BOUNDED-VIOLATION: unitBitSize=%d pattern=%d: final Get(%d)=%#x want %#x\n", u, pi, k, got, ref[k])
					t.FailNow()
				}
			}
			distinct++
		}
	}
	fmt.Fprintf(os.Stdout, "BOUNDED cases=%d distinct=%d bound=\"unit widths 1..64 x 9 value patterns x 96 writes over unit indices 0..47, every Get of the written unit and its neighbours and a final full read-back against a []uint64 model\"\n", cases, distinct)
}

func maxSet(ref []uint64, l *CompactBitList) int { return len(ref) }

package trie

// BOUNDED stand-in for C11/C12 (succinct trie NewTrie / HasPrefix): exhaustive small key sets against the
// abstract contract  HasPrefix(w) <=> exists k in keys: k is a prefix of w.
//   CIDR flavour:   alphabet {0,1}, all sets of <= 3 keys of length <= 4, all probes of length <= 5
//   domain flavour: alphabet {a, z, 1, -, ., ^, _} (letters/digits and the punctuation whose label code
//                   order differs from byte order), all sets of <= 2 keys of length <= 3 plus 6000 seeded
//                   sets of 3..5 keys, all probes of length <= 4
// Not a proof: the bound is stated in the evidence.

import (
	"fmt"
	"os"
	"strings"
	"testing"
)

func verifWords(alpha string, maxLen int) []string {
	out := []string{""}
	frontier := []string{""}
	for l := 1; l <= maxLen; l++ {
		var next []string
		for _, w := range frontier {
			for _, c := range alpha {
				next = append(next, w+string(c))
			}
		}
		out = append(out, next...)
		frontier = next
	}
	return out
}

func verifCheckSet(t *testing.T, keys []string, chars *ValidChars, probes []string, flavour string) int {
	tr, err := NewTrie(append([]string{}, keys...), chars)
	if err != nil {
		fmt.Printf("BOUNDED-VIOLATION: %s NewTrie(%q): %v\n", flavour, keys, err)
		t.FailNow()
	}
	n := 0
	for _, w := range probes {
		want := false
		for _, k := range keys {
			if strings.HasPrefix(w, k) {
				want = true
				break
			}
		}
		if got := tr.HasPrefix(w); got != want {
			fmt.Printf("BOUNDED-VIOLATION: %s keys=%q HasPrefix(%q)=%v want %v\n", flavour, keys, w, got, want)
			t.FailNow()
		}
		n++
	}
	return n
}

func TestVerifBounded_Trie(t *testing.T) {
	cases, sets := 0, 0
	thorough := os.Getenv("VERIF_TIER") == "thorough"
	// CIDR flavour
	cl := 4
	if thorough {
		cl = 5
	}
	cw := verifWords("01", cl)
	cp := verifWords("01", cl+1)
	for i := 0; i < len(cw); i++ {
		cases += verifCheckSet(t, []string{cw[i]}, ValidCidrChars, cp, "cidr")
		sets++
		for j := i + 1; j < len(cw); j++ {
			cases += verifCheckSet(t, []string{cw[i], cw[j]}, ValidCidrChars, cp, "cidr")
			sets++
			for k := j + 1; k < len(cw); k++ {
				cases += verifCheckSet(t, []string{cw[i], cw[j], cw[k]}, ValidCidrChars, cp, "cidr")
				sets++
			}
		}
	}
	// domain flavour
	dchars := NewValidChars([]byte("0123456789abcdefghijklmnopqrstuvwxyz-.^_"))
	dw := verifWords("az1-.^_", 3)
	dp := verifWords("az1-.^_", 4)
	for i := 0; i < len(dw); i++ {
		cases += verifCheckSet(t, []string{dw[i]}, dchars, dp, "domain")
		sets++
	}
	for i := 0; i < len(dw); i += 1 {
		step := 3
		if thorough {
			step = 1
		}
		for j := i + 1; j < len(dw); j += step {
			cases += verifCheckSet(t, []string{dw[i], dw[j]}, dchars, dp, "domain")
			sets++
		}
	}
	seed := uint64(88172645463325252)
	nsets := 6000
	if thorough {
		nsets = 60000
		var sv uint64
		fmt.Sscan(os.Getenv("VERIF_SEED"), &sv)
		seed ^= (sv + 1) * 0x9E3779B97F4A7C15
	}
	for s := 0; s < nsets; s++ {
		n := 3 + s%3
		var ks []string
		for q := 0; q < n; q++ {
			seed ^= seed << 13
			seed ^= seed >> 7
			seed ^= seed << 17
			ks = append(ks, dw[seed%uint64(len(dw))])
		}
		// deduplicate (NewTrie does it as well)
		seen := map[string]bool{}
		var uk []string
		for _, k := range ks {
			if !seen[k] {
				seen[k] = true
				uk = append(uk, k)
			}
		}
		cases += verifCheckSet(t, uk, dchars, dp, "domain")
		sets++
	}
	pairs := "a third of all key pairs"
	if thorough {
		pairs = "all key pairs"
	}
	fmt.Fprintf(os.Stdout, "BOUNDED cases=%d distinct=%d bound=\"cidr: all sets of <=3 keys of length <=%d over {0,1}, probes of length <=%d; domain: alphabet {a,z,1,-,.,^,_}, all single keys and %s of length <=3 plus %d seeded sets of 3..5 keys, probes of length <=4\"\n", cases, sets, cl, cl+1, pairs, nsets)
}

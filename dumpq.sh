#!/bin/bash
# usage: dumpq.sh <pkg> <func> <obligation-substring> <outfile>
${GOVC:-/verif/bin/govc} vc "$1" "$2" -dump "$3" 2>&1 | awk -v pat="$3" 'BEGIN{p=0} /^(FAIL|ok  ) /{ if (index($0,pat)>0 && p==0) {p=1; next} } /^---- solver output/{ if(p==1){p=2} } p==1{print}' > "$4"
wc -c "$4"

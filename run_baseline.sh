#!/bin/bash
# Runs the repository's pinned test suite (guard OFF) and reports pass/fail counts.
cd /repo && . /w/out/goenv.sh && MF=$(gomodflag) && go test $MF -json -vet=off -count=1 -timeout 25m ./... 2>&1 > /tmp/baseline.json
python3 - <<'PY'
import json
base=json.load(open('/root/.vp/BASELINE.json'))['stable_pass']
res={}
for l in open('/tmp/baseline.json'):
    try: e=json.loads(l)
    except Exception: continue
    if e.get('Action') in ('pass','fail') and e.get('Test'):
        res[e['Package']+'::'+e['Test']]=e['Action']
missing=[t for t in base if res.get(t)!='pass']
print('baseline tests:',len(base),'passing now:',len(base)-len(missing))
for m in missing[:20]: print('NOT PASSING:',m,res.get(m))
PY

#!/usr/bin/env python3
# usage: addfn.py <id> <pkg> <name> [<id> <pkg> <name> ...]  -- registers functions under contract in props.json
import json,sys
p=json.load(open('/verif/props.json'))
a=sys.argv[1:]
for i in range(0,len(a),3):
    pid,pkg,name=a[i:i+3]
    e=[x for x in p if x['id']==pid][0]
    if not any(f['pkg']==pkg and f['name']==name for f in e['functions']):
        e['functions'].append({'pkg':pkg,'name':name}); print('added',pid,pkg,name)
json.dump(p,open('/verif/props.json','w'),indent=1)

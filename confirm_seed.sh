#!/bin/bash
# usage: confirm_seed.sh <id> <mdir>  -- confirms a seeded change in a scratch worktree and copies it to /verif/seeded/<id>-<m>/
# checks: demo passes on clean tree, patch applies and builds, demo fails with the patch, package tests still pass.
id=$1; mdir=$2; name=$(basename $mdir)
export GOFLAGS=-mod=mod GOPROXY=off GOSUMDB=off GOTOOLCHAIN=local PATH=/opt/veriftools/go1.26.8/bin:$PATH
wt=/tmp/confirm_$id_$name_$$
git -C /repo worktree add --detach $wt HEAD -q || exit 2
trap "git -C /repo worktree remove --force $wt" EXIT
cd $wt
ddir=$(python3 -c "import json;print(json.load(open('$mdir/meta.json'))['demo_dir'])")
dfile=$(python3 -c "import json;print(json.load(open('$mdir/meta.json'))['demo_file'])")
drun=$(python3 -c "import json;print(json.load(open('$mdir/meta.json'))['demo_run'])")
cp $mdir/demo_test.go $ddir/$dfile
tags=""; case "$drun" in *dae_stub_ebpf*) tags="-tags dae_stub_ebpf";; esac
runre=$(echo "$drun" | grep -o "\-run [^ ]*" | head -1 | tr -d "'\"")
[ -z "$runre" ] && runre="-run ."
clean=$(go test $tags -vet=off -count=1 $runre ./$ddir 2>&1 | tail -3)
echo "$clean" | grep -q "^ok" && c1=PASS || c1=FAIL
git apply $mdir/patch.diff || { echo "$id $name: PATCH-NOAPPLY"; exit 1; }
go build -tags dae_stub_ebpf ./... 2>&1 | tail -2
mut=$(go test $tags -vet=off -count=1 $runre ./$ddir 2>&1 | tail -5)
echo "$mut" | grep -q "^ok" && c2=PASS || c2=FAIL
rm -f $ddir/$dfile
pkgs=$(git diff --name-only | xargs -n1 dirname | sort -u | sed 's|^|./|')
exist=ok
for p in $pkgs; do
  case $p in ./control*|./cmd*) go test -tags dae_stub_ebpf -vet=off -count=1 -run XXX_NONE $p >/dev/null 2>&1 || exist=FAIL;; *) go test -vet=off -count=1 $p >/dev/null 2>&1 || exist=FAIL;; esac
done
echo "$id $name: demo-on-clean=$c1 demo-with-change=$c2 existing-tests=$exist"
if [ $c1 = PASS ] && [ $c2 = FAIL ] && [ $exist = ok ]; then
  out=/verif/seeded/$id-$name; mkdir -p $out
  cp $mdir/patch.diff $mdir/demo_test.go $out/
  python3 - <<PY
import json
m=json.load(open('$mdir/meta.json'))
m['confirmed']={'by':'confirm_seed.sh in a scratch worktree','demo_on_clean':'$c1','demo_with_change':'$c2','existing_tests_of_touched_packages':'$exist'}
json.dump(m,open('$out/meta.json','w'),indent=1)
PY
fi

#!/bin/bash
# usage: mut.sh <file-rel> <sed-expr> <pkg> <func>   -- applies a mutation to /repo, runs vc, restores
f=/repo/$1
cp "$f" /tmp/mut.bak
sed -i "$2" "$f"
if diff -q "$f" /tmp/mut.bak >/dev/null; then echo "MUTATION DID NOT APPLY"; fi
(cd /repo && git diff --stat | tail -1)
/verif/bin/govc vc "$3" "$4" 2>&1 | grep -v "^ok\|^assumes\|^loaded\|^note" | cut -c1-160
cp /tmp/mut.bak "$f"

package sniffing

// Replay adapter for C06 / findSniExtension: every extension block that is at most 12 bytes long over a
// small alphabet is run through the real function with cap == len; a panic is a violation
// (reading past Len() inside spare capacity is silent, hence the exact-capacity copies).

import (
	"fmt"
	"testing"

	"github.com/daeuniverse/dae/component/sniffing/internal/quicutils"
)

func verifTry(b []byte) (msg string) {
	defer func() {
		if r := recover(); r != nil {
			msg = fmt.Sprintf("REPLAY-VIOLATION: findSniExtension(% x) panics: %v", b, r)
		}
	}()
	exact := make([]byte, len(b))
	copy(exact, b)
	_, _ = findSniExtension(quicutils.BuiltinBytesLocator(exact[:len(b):len(b)]))
	return ""
}

func TestVerifReplay_FindSniExtension(t *testing.T) {
	alphabet := []byte{0x00, 0x01, 0x02, 0x05, 0xff}
	var rec func(cur []byte, depth int) string
	rec = func(cur []byte, depth int) string {
		if m := verifTry(cur); m != "" {
			return m
		}
		if depth == 0 {
			return ""
		}
		for _, c := range alphabet {
			if m := rec(append(append([]byte{}, cur...), c), depth-1); m != "" {
				return m
			}
		}
		return ""
	}
	if m := rec(nil, 7); m != "" {
		t.Fatal(m)
	}
}

package control

// Replay adapter for C10 (F11): RebuildReloadDatapath empties domain_routing_map and replays the DNS cache into
// the SAME core. If the core's tracker is not reset in between, syncOwner compares the replayed entry with what
// the tracker still believes the kernel holds, finds no difference and writes nothing: the table stays empty
// while the cache entry is alive. The history is replayed on the real tracker; in the stub build every kernel
// write through a non-nil map surfaces as errBpfObjectsUnavailable, which is how a write attempt is observed.
// Injected with `go test -overlay`; never written into /repo.

import (
	"testing"

	"github.com/cilium/ebpf"
)

func TestVerifReplay_RollbackReplayWritesNothing(t *testing.T) {
	tr := newDomainRoutingTracker()
	var snap domainRoutingOwnerSnapshot
	snap.bitmap.Bitmap[0] = 1
	key := [4]uint32{0, 0, 0xffff0000, 0x04030201}
	snap.ips = map[[4]uint32]struct{}{key: {}}
	// normal operation: the cache entry example.com/A -> 1.2.3.4 is mirrored (nil map: the kernel write itself
	// is elided) and the tracker records owner and address
	if err := tr.syncOwner(nil, "example.com.1", snap); err != nil {
		t.Fatal(err)
	}
	// RebuildReloadDatapath: clearReloadDomainRoutingMap has just emptied the kernel table; on the code under
	// replay nothing tells the tracker. The still-live cache entry is replayed:
	err := tr.syncOwner(new(ebpf.Map), "example.com.1", snap)
	if err == nil {
		t.Fatalf("REPLAY-VIOLATION: after the kernel table was cleared, replaying the live cache entry example.com/A -> 1.2.3.4 (bitmap word0=1) attempted no write to domain_routing_map (tracker still lists %d address(es), %d owner(s)): the address stays absent from the table while the entry is cached", len(tr.ips), len(tr.owners))
	}
}

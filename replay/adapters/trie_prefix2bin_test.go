package trie

// Replay adapter for C12 / Prefix2bin128: executable form of the contract, tried on the boundary
// prefixes (every length 0..32 and 0..128 over two address patterns).

import (
	"net/netip"
	"testing"
)

func TestVerifReplay_Prefix2bin128(t *testing.T) {
	addrs := []netip.Addr{netip.MustParseAddr("::"), netip.MustParseAddr("a5a5:5a5a:ffff:0:1234:5678:9abc:def0"), netip.MustParseAddr("0.0.0.0"), netip.MustParseAddr("165.90.255.1")}
	for _, a := range addrs {
		max := 128
		if a.Is4() {
			max = 32
		}
		for bits := 0; bits <= max; bits++ {
			p := netip.PrefixFrom(a, bits)
			got := Prefix2bin128(p)
			nb := bits
			if a.Is4() {
				nb += 96
			}
			ip := a.As16()
			if len(got) != nb {
				probe := netip.MustParseAddr("2001:db8::1")
				tr, err := NewTrieFromPrefixes([]netip.Prefix{p})
				hit := "n/a"
				if err == nil {
					hit = map[bool]string{true: "matches", false: "does NOT match"}[tr.HasPrefix(Prefix2bin128(netip.PrefixFrom(probe, 128)))]
				}
				t.Fatalf("REPLAY-VIOLATION: Prefix2bin128(%v) has %d characters, want %d; the userspace set {%v} %s %v", p, len(got), nb, p, hit, probe)
			}
			for k := 0; k < nb; k++ {
				want := byte('0' + (ip[k/8]>>(7-k%8))&1)
				if got[k] != want {
					t.Fatalf("REPLAY-VIOLATION: Prefix2bin128(%v)[%d] = %c, want %c", p, k, got[k], want)
				}
			}
		}
	}
}

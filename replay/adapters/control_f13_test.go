package control

// Replay adapter for C08 / ControlPlane.ReuseDNSControllerFrom: a reload whose DNS section is unchanged reuses the
// previous generation's DNS controller. The controller must keep the cache behaviour it was configured with
// (optimistic_cache, optimistic_cache_ttl, max_cache_size, ip_version_prefer): the stale window and the size limit
// of C08 are "the configured" ones, before and after a reload.

import (
	"context"
	"fmt"
	"testing"

	dnsmessage "github.com/miekg/dns"
	"github.com/sirupsen/logrus"
)

func TestVerifReplay_ReuseKeepsConfiguredCacheBehaviour(t *testing.T) {
	log := logrus.New()
	oldCtl, err := NewDnsController(nil, &DnsControllerOption{
		Log:                log,
		IpVersionPrefer:    int(IpVersionPrefer_6),
		OptimisticCache:    true,
		OptimisticCacheTtl: 300,
		MaxCacheSize:       1000,
	})
	if err != nil {
		t.Skip(err)
	}
	prev := &ControlPlane{log: log, ctx: context.Background()}
	prev.dnsController = oldCtl
	cur := &ControlPlane{log: log, ctx: context.Background()}
	if !cur.ReuseDNSControllerFrom(prev) {
		t.Skip("controller was not reused")
	}
	defer func() { _ = cur.dnsController.Close() }()
	enabled, ttl, maxSize := cur.dnsController.currentOptimisticCacheConfig()
	prefer := cur.dnsController.currentQtypePrefer()
	fmt.Printf("after reuse: optimistic=%v ttl=%d max=%d prefer=%v\n", enabled, ttl, maxSize, prefer)
	if !enabled || ttl != 300 || maxSize != 1000 || prefer != dnsmessage.TypeAAAA {
		fmt.Printf("REPLAY-VIOLATION: configured optimistic_cache=true ttl=300 max_cache_size=1000 ip_version_prefer=6; after a reload that reuses the controller: optimistic=%v ttl=%d max=%d prefer=%v\n", enabled, ttl, maxSize, prefer)
		t.FailNow()
	}
}

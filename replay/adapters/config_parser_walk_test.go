package config_parser

// Replay adapters for C17 / config parser: "parsing never crashes, whatever the input".

import "testing"

func replayParse(t *testing.T, in string) {
	t.Helper()
	defer func() {
		if r := recover(); r != nil {
			t.Fatalf("REPLAY-VIOLATION: Parse(%q) crashed: %v", in, r)
		}
	}()
	_, _ = Parse(in)
}

// Parse walks a tree built by ANTLR error recovery: child counts and node types the walker relies on
// do not hold (index out of range / failed type assertion).
func TestVerifReplay_WalkAfterSyntaxError(t *testing.T) {
	replayParse(t, "dns { upstream { a: 'udp://1.1.1.1' } routing { fallback: a } } dns")
	replayParse(t, "group { } filter: name(a,b) policy: min { }")
}

// An outbound written as a function with an empty parameter list: parseFunctionPrototype reports the
// error and returns nil, parseRoutingRule dereferences it.
func TestVerifReplay_OutboundEmptyParams(t *testing.T) {
	replayParse(t, "routing { domain(x) -> g() }")
}

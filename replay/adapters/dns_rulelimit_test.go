package dns

// Replay adapter for C17 / rule programs beyond the supported size: a DNS request-routing program
// whose domain rule sits beyond the match-set limit must be rejected with an error, not crash.

import (
	"testing"

	"github.com/daeuniverse/dae/common/consts"
	"github.com/daeuniverse/dae/component/routing"
	"github.com/daeuniverse/dae/pkg/config_parser"
	"github.com/sirupsen/logrus"
)

func TestVerifReplay_DomainRuleBeyondLimit(t *testing.T) {
	b := &RequestMatcherBuilder{log: logrus.New(), upstreamName2Id: map[string]uint8{"u": 0}}
	out := &routing.Outbound{Name: "u"}
	f := &config_parser.Function{Name: "qtype"}
	for i := 0; i < consts.MaxMatchSetLen+1; i++ {
		if err := b.addQType(f, []uint16{uint16(i%200 + 1)}, out); err != nil {
			t.Fatalf("addQType: %v", err)
		}
	}
	if err := b.addQName(&config_parser.Function{Name: "qname"}, "full", []string{"example.com"}, out); err != nil {
		t.Fatalf("addQName: %v", err)
	}
	b.rules = append(b.rules, requestMatchSet{Type: consts.MatchType_Fallback})
	defer func() {
		if r := recover(); r != nil {
			t.Fatalf("REPLAY-VIOLATION: Build crashed on a program with %d rules: %v", len(b.rules), r)
		}
	}()
	if _, err := b.Build(); err == nil {
		t.Fatalf("REPLAY-VIOLATION: program with %d rules (limit %d) accepted without error", len(b.rules), consts.MaxMatchSetLen)
	}
}

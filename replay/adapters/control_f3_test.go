package control

// Replay adapter for C08: the production insert helper must leave deadlineNano == Deadline.UnixNano().
// Injected with `go test -overlay`; never written into /repo.

import (
	"testing"
	"time"

	dnsmessage "github.com/miekg/dns"
)

func TestVerifReplay_PrepackBeforeStoreDeadline(t *testing.T) {
	now := time.Now()
	deadline := now.Add(300 * time.Second)
	rr, err := dnsmessage.NewRR("example.com. 300 IN A 1.2.3.4")
	if err != nil {
		t.Fatal(err)
	}
	c := &DnsCache{Answer: []dnsmessage.RR{rr}, Deadline: deadline, OriginalDeadline: deadline}
	if err := c.prepackResponseBeforeStore("example.com.", dnsmessage.TypeA, ttlFromDeadline(deadline, now), now); err != nil {
		t.Fatal(err)
	}
	if got, want := c.deadlineNano.Load(), deadline.UnixNano(); got != want {
		t.Fatalf("REPLAY-VIOLATION: after prepackResponseBeforeStore deadlineNano=%d, Deadline.UnixNano()=%d; GetStaleResponse(deadline+1s, staleTtl=60) = %v (want non-nil)", got, want, c.GetStaleResponse(deadline.Add(time.Second), 60) != nil)
	}
}

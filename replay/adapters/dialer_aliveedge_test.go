package dialer

// Replay adapter for C16 / AliveDialerSet.NotifyLatencyChange: a latency-policy set whose last alive node died
// (callback(false): the kernel connectivity bit is cleared) and that then sees a node revive WITHOUT a latency
// sample (data-UDP revival by traffic, reload fallback) must report the revival (callback(true)).

import (
	"fmt"
	"testing"

	"github.com/daeuniverse/dae/common/consts"
)

func TestVerifReplay_RevivalWithoutSampleIsReported(t *testing.T) {
	networkType := newTestNetworkType()
	d := newNamedTestDialer(t, "only-node")
	var calls []bool
	set := NewAliveDialerSet(d.Log, "g", networkType, 0, consts.DialerSelectionPolicy_MinLastLatency,
		[]*Dialer{d}, []*Annotation{{}}, func(alive bool) { calls = append(calls, alive) }, true)
	// the node has no latency sample at any point
	set.NotifyLatencyChange(d, false) // last alive node dies
	set.NotifyLatencyChange(d, true)  // ... and revives
	fmt.Printf("callbacks=%v len=%d\n", calls, set.Len())
	if len(calls) < 1 || calls[0] != false {
		t.Skipf("death was not reported first: %v", calls)
	}
	if set.Len() != 1 {
		t.Skipf("node not alive in the set after revival")
	}
	if len(calls) != 2 || calls[1] != true {
		fmt.Printf("REPLAY-VIOLATION: callbacks=%v: the set has an alive node again but the revival was never reported (connectivity bit stays 0)\n", calls)
		t.FailNow()
	}
}

package control

// Replay adapter for C16 / ControlPlane.InheritDialerHealthFrom: "a reload hands the last known state to the new
// generation while leaving every non-empty group at least one selectable node". A node shared by two groups: group
// ga = {X}, group gb = {X, Y}; X was dead in the old generation. The floor of ga revives X; processing gb afterwards
// must not take it down again.

import (
	"fmt"
	"io"
	"testing"
	"time"

	"github.com/daeuniverse/dae/common/consts"
	"github.com/daeuniverse/dae/component/outbound"
	"github.com/daeuniverse/dae/component/outbound/dialer"
	D "github.com/daeuniverse/outbound/dialer"
	"github.com/daeuniverse/outbound/protocol/direct"
	"github.com/sirupsen/logrus"
)

func TestVerifReplay_SharedNodeKeepsGroupFloor(t *testing.T) {
	logger := logrus.New()
	logger.SetOutput(io.Discard)
	opt := &dialer.GlobalOption{Log: logger, CheckInterval: 30 * time.Second, CheckTolerance: time.Second}
	mk := func(name string) *dialer.Dialer {
		return dialer.NewDialer(direct.SymmetricDirect, opt, dialer.InstanceOption{}, &dialer.Property{Property: D.Property{Name: name}})
	}
	grp := func(name string, ds ...*dialer.Dialer) *outbound.DialerGroup {
		ann := make([]*dialer.Annotation, len(ds))
		for i := range ann {
			ann[i] = &dialer.Annotation{}
		}
		return outbound.NewDialerGroup(opt, name, ds, ann, outbound.DialerSelectionPolicy{Policy: consts.DialerSelectionPolicy_MinLastLatency}, func(bool, *dialer.NetworkType, bool) {})
	}
	oldX, oldY, newX, newY := mk("X"), mk("Y"), mk("X"), mk("Y")
	for _, d := range []*dialer.Dialer{oldX, oldY, newX, newY} {
		defer func(d *dialer.Dialer) { _ = d.Close() }(d)
	}
	oldGA, oldGB := grp("ga", oldX), grp("gb", oldX, oldY)
	newGA, newGB := grp("ga", newX), grp("gb", newX, newY)
	for _, g := range []*outbound.DialerGroup{oldGA, oldGB, newGA, newGB} {
		defer func(g *outbound.DialerGroup) { _ = g.Close() }(g)
	}
	tcp4 := &dialer.NetworkType{L4Proto: consts.L4ProtoStr_TCP, IpVersion: consts.IpVersionStr_4}
	oldX.ReportUnavailableForced(tcp4, nil)
	oldX.NotifyHealthCheckResult(tcp4, false, false)
	if oldX.MustGetAlive(tcp4) || !oldY.MustGetAlive(tcp4) {
		t.Skip("setup: X should be dead and Y alive in the old generation")
	}
	oldCP := &ControlPlane{controlPlaneGenerationState: controlPlaneGenerationState{outbounds: []*outbound.DialerGroup{oldGA, oldGB}}}
	newCP := &ControlPlane{controlPlaneGenerationState: controlPlaneGenerationState{outbounds: []*outbound.DialerGroup{newGA, newGB}}}
	newCP.InheritDialerHealthFrom(oldCP)
	fmt.Printf("after inherit: X alive=%v Y alive=%v\n", newX.MustGetAlive(tcp4), newY.MustGetAlive(tcp4))
	if !newX.MustGetAlive(tcp4) {
		fmt.Printf("REPLAY-VIOLATION: group ga = {X} is non-empty but has no selectable node for tcp4 after the reload hand-over: the floor that revived X was undone when group gb = {X, Y} restored X's old (dead) state again\n")
		t.FailNow()
	}
}

package routing

// Replay adapter for C01/C04: a condition whose parameter list is empty (e.g. after a geodata expansion
// that matched nothing) must not silently vanish from the rule when it is lowered.

import (
	"testing"

	"github.com/daeuniverse/dae/pkg/config_parser"
	"github.com/sirupsen/logrus"
)

func TestVerifReplay_EmptyConditionIsNotDropped(t *testing.T) {
	log := logrus.New()
	log.SetLevel(logrus.ErrorLevel)
	b := NewRulesBuilder(log)
	var lowered []string
	rec := func(name string) FunctionParser {
		return func(log *logrus.Logger, f *config_parser.Function, key string, paramValueGroup []string, overrideOutbound *Outbound) error {
			lowered = append(lowered, name+"->"+overrideOutbound.Name)
			return nil
		}
	}
	b.RegisterFunctionParser("domain", rec("domain"))
	b.RegisterFunctionParser("port", rec("port"))
	// domain(<nothing>) && port(80) -> proxy : as written the rule can never match
	rules := []*config_parser.RoutingRule{{
		AndFunctions: []*config_parser.Function{
			{Name: "domain", Params: nil},
			{Name: "port", Params: []*config_parser.Param{{Val: "80"}}},
		},
		Outbound: config_parser.Function{Name: "proxy"},
	}}
	err := b.Apply(rules)
	if err == nil && len(lowered) == 1 {
		t.Fatalf("REPLAY-VIOLATION: the condition domain() was dropped; the rule was lowered to %v, i.e. it now matches every packet to port 80", lowered)
	}
}

package routing

// Replay adapter for C17 / DatReaderOptimizer worker: an `ext:` value without a colon.

import (
	"testing"

	"github.com/daeuniverse/dae/common/assets"
	"github.com/daeuniverse/dae/pkg/config_parser"
	"github.com/sirupsen/logrus"
)

func TestVerifReplay_ExtWithoutColon(t *testing.T) {
	o := &DatReaderOptimizer{Logger: logrus.New(), LocationFinder: assets.NewLocationFinder(nil)}
	rules := []*config_parser.RoutingRule{{
		AndFunctions: []*config_parser.Function{{Name: "domain", Params: []*config_parser.Param{{Key: "ext", Val: "foo"}}}},
		Outbound:     config_parser.Function{Name: "proxy"},
	}}
	// On a defective tree the worker goroutine panics with "index out of range [1] with length 1",
	// which takes the whole process down (the harness sees "panic:" in the output).
	_, err := o.Optimize(rules)
	if err == nil {
		t.Fatalf("REPLAY-VIOLATION: domain(ext:\"foo\") accepted without error")
	}
}

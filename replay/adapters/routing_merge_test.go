package routing

// Replay adapter for C04 / MergeAndSortRulesOptimizer: neighbouring negated single-condition rules.
// A tiny evaluator of the documented rule semantics (values of a condition are alternatives, '!'
// negates the condition, first matching rule wins) decides a destination before and after Optimize.

import (
	"testing"

	"github.com/daeuniverse/dae/pkg/config_parser"
)

func verifDecide(rules []*config_parser.RoutingRule, dst string) string {
	for _, r := range rules {
		all := true
		for _, f := range r.AndFunctions {
			hit := false
			for _, p := range f.Params {
				if p.Val == dst {
					hit = true
				}
			}
			if hit == f.Not {
				all = false
			}
		}
		if all {
			return r.Outbound.Name
		}
	}
	return "<fallback>"
}

func verifRule(not bool, val, out string) *config_parser.RoutingRule {
	return &config_parser.RoutingRule{
		AndFunctions: []*config_parser.Function{{Name: "dip", Not: not, Params: []*config_parser.Param{{Val: val}}}},
		Outbound:     config_parser.Function{Name: out},
	}
}

func TestVerifReplay_MergeNegated(t *testing.T) {
	mk := func() []*config_parser.RoutingRule {
		return []*config_parser.RoutingRule{verifRule(true, "1.1.1.1", "proxy"), verifRule(true, "2.2.2.2", "proxy")}
	}
	before := mk()
	after, err := (&MergeAndSortRulesOptimizer{}).Optimize(mk())
	if err != nil {
		t.Fatal(err)
	}
	for _, dst := range []string{"1.1.1.1", "2.2.2.2", "3.3.3.3"} {
		if a, b := verifDecide(before, dst), verifDecide(after, dst); a != b {
			t.Fatalf("REPLAY-VIOLATION: rules `!dip(1.1.1.1)->proxy; !dip(2.2.2.2)->proxy` decide %s as %q, after MergeAndSortRulesOptimizer (%d rule(s)) as %q", dst, a, len(after), b)
		}
	}
}

#!/usr/bin/env python3
# Re-inserts /verif/asbuilt.md as part A of DESIGN.md.
s=open('/verif/DESIGN.md').read()
a=open('/verif/asbuilt.md').read()
i=s.index("## A. As built")
j=s.index("---------------------------------------------------------------------------------------------\n\n## 0. Verdict per property")
open('/verif/DESIGN.md','w').write(s[:i]+a+"\n"+s[j:])
print("DESIGN.md part A updated")

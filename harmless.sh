#!/bin/bash
# Must-pass corpus: behaviour-preserving edits under /verif/harmless/<name>/ on which the property's quick check
# must not report a violation (UNDECIDED, exit 2, is tolerated: "clause cannot be stated on the current code").
# Each edit is applied to a scratch worktree of /repo's HEAD (seedwt.sh); /repo is not touched.
# usage: harmless.sh [jobs]  -> prints one line per edit and writes /verif/harmless_last.txt
cd /verif || exit 2
jobs=${1:-3}
for d in /verif/harmless/*/; do
  n=$(basename $d); id=$(python3 -c "import json;print(json.load(open('$d/meta.json'))['property'])")
  echo "$id ${d}patch.diff $n"
done | xargs -P "$jobs" -L1 /verif/seedwt.sh 2>&1 | sed 's/MISSED(rc=0)/GREEN/; s/MISSED(rc=2)/UNDECIDED/; s/CAUGHT/FALSE-ALARM/' | sort -k2 | cut -c1-200 | tee /verif/harmless_last.txt

#!/bin/bash
# Must-pass corpus: behaviour-preserving edits under /verif/harmless/<name>/ on which the property's quick check
# must not report a violation. usage: harmless.sh  -> prints one line per edit and writes /verif/harmless_last.txt
cd /verif || exit 2
: > /verif/harmless_last.txt
for d in /verif/harmless/*/; do
  n=$(basename $d); id=$(python3 -c "import json;print(json.load(open('$d/meta.json'))['property'])")
  out=$(/verif/seedtest.sh $id $d/patch.diff 2>&1 | tail -4)
  v=$(echo "$out" | grep -c "^VIOLATION"); u=$(echo "$out" | grep -c "^UNDECIDED"); e=$(echo "$out" | grep -o "exit=[0-9]*")
  echo "$n ($id): violations=$v undecided=$u $e" | tee -a /verif/harmless_last.txt
done

package main

import (
	"fmt"
	"go/constant"
	"go/token"
	"go/types"
	"math/big"
)

// Integer semantics (Int mode): every integer is an SMT Int inside its type's range;
// arithmetic wraps explicitly.

func wrapTo(x Term, t types.Type) Term {
	w, signed, ok := intWidth(t)
	if !ok {
		return x
	}
	m := bigLit(pow2(w))
	if !signed {
		return app(SInt, "mod", x, m)
	}
	h := bigLit(pow2(w - 1))
	return sub(app(SInt, "mod", add(x, h), m), h)
}

// wrapOnce: x is known to be within one modulus of the range (result of + or -).
func wrapOnce(x Term, t types.Type) Term {
	lo, hi, ok := intRange(t)
	if !ok {
		return x
	}
	w, _, _ := intWidth(t)
	m := bigLit(pow2(w))
	return Term{fmt.Sprintf("(let ((r! %s)) (ite (> r! %s) (- r! %s) (ite (< r! %s) (+ r! %s) r!)))", x.S, bigLit(hi).S, m.S, bigLit(lo).S, m.S), SInt}
}

func constInt(t Term) (*big.Int, bool) {
	s := t.S
	neg := false
	if len(s) > 4 && s[:3] == "(- " && s[len(s)-1] == ')' {
		neg = true
		s = s[3 : len(s)-1]
	}
	for _, c := range s {
		if c < '0' || c > '9' {
			return nil, false
		}
	}
	if s == "" {
		return nil, false
	}
	n, ok := new(big.Int).SetString(s, 10)
	if !ok {
		return nil, false
	}
	if neg {
		n.Neg(n)
	}
	return n, true
}

// truncated division and remainder (Go semantics) for signed operands
func tdiv(a, b Term) Term {
	return Term{fmt.Sprintf("(let ((a! %s) (b! %s)) (ite (>= a! 0) (ite (> b! 0) (div a! b!) (- (div a! (- b!)))) (ite (> b! 0) (- (div (- a!) b!)) (div (- a!) (- b!)))))", a.S, b.S), SInt}
}

func tmod(a, b Term) Term {
	return Term{fmt.Sprintf("(let ((a! %s) (b! %s)) (ite (>= a! 0) (mod a! (abs b!)) (- (mod (- a!) (abs b!)))))", a.S, b.S), SInt}
}

// andConst computes x & c exactly for non-negative x and constant c >= 0.
func andConst(x Term, c *big.Int, w uint) Term {
	if c.Sign() == 0 {
		return intLit(0)
	}
	all := new(big.Int).Sub(pow2(w), big.NewInt(1))
	if c.Cmp(all) == 0 {
		return x
	}
	var parts []Term
	i := uint(0)
	for i < w {
		if c.Bit(int(i)) == 0 {
			i++
			continue
		}
		j := i
		for j < w && c.Bit(int(j)) == 1 {
			j++
		}
		// run [i, j)
		var p Term
		if i == 0 {
			p = app(SInt, "mod", x, bigLit(pow2(j)))
		} else {
			p = mul(app(SInt, "mod", app(SInt, "div", x, bigLit(pow2(i))), bigLit(pow2(j-i))), bigLit(pow2(i)))
		}
		parts = append(parts, p)
		i = j
	}
	if len(parts) == 1 {
		return parts[0]
	}
	return app(SInt, "+", parts...)
}

// toUnsigned maps a value of signed type to its two's complement unsigned value.
func toUnsigned(x Term, w uint) Term {
	return Term{fmt.Sprintf("(let ((u! %s)) (ite (< u! 0) (+ u! %s) u!))", x.S, bigLit(pow2(w)).S), SInt}
}

func fromUnsigned(x Term, w uint) Term {
	return Term{fmt.Sprintf("(let ((u! %s)) (ite (>= u! %s) (- u! %s) u!))", x.S, bigLit(pow2(w-1)).S, bigLit(pow2(w)).S), SInt}
}

func (e *Enc) bitUF(op string, w uint, a, b Term) Term {
	name := fmt.Sprintf("%s%d", op, w)
	if !e.declSet[name] {
		e.declareFun(name, []string{SInt, SInt}, SInt)
		m := bigLit(pow2(w)).S
		switch op {
		case "band":
			e.axiom(fmt.Sprintf("(forall ((a Int) (b Int)) (! (=> (and (<= 0 a) (<= 0 b)) (and (<= 0 (%s a b)) (<= (%s a b) a) (<= (%s a b) b) (= (%s a b) (%s b a)))) :pattern ((%s a b))))", name, name, name, name, name, name))
			e.axiom(fmt.Sprintf("(forall ((a Int)) (! (and (= (%s a a) a) (= (%s a 0) 0) (= (%s 0 a) 0)) :pattern ((%s a a))))", name, name, name, name))
		case "bor":
			e.axiom(fmt.Sprintf("(forall ((a Int) (b Int)) (! (=> (and (<= 0 a) (<= 0 b) (< a %s) (< b %s)) (and (<= a (%s a b)) (<= b (%s a b)) (< (%s a b) %s) (<= (%s a b) (+ a b)) (= (%s a b) (%s b a)))) :pattern ((%s a b))))", m, m, name, name, name, m, name, name, name, name))
			e.axiom(fmt.Sprintf("(forall ((a Int)) (! (and (= (%s a 0) a) (= (%s 0 a) a)) :pattern ((%s a 0)) :pattern ((%s 0 a))))", name, name, name, name))
		case "bxor":
			e.axiom(fmt.Sprintf("(forall ((a Int) (b Int)) (! (=> (and (<= 0 a) (<= 0 b) (< a %s) (< b %s)) (and (<= 0 (%s a b)) (< (%s a b) %s) (= (= (%s a b) 0) (= a b)))) :pattern ((%s a b))))", m, m, name, name, m, name, name))
		}
		e.assumption("bit operator " + name + " is uninterpreted with sound partial axioms (Int mode)")
	}
	return app(SInt, name, a, b)
}

// bitAnd8 gives an exact definition of & for small widths via bit decomposition.
func exactBitOp(op string, w uint, a, b Term) Term {
	var parts []Term
	for j := uint(0); j < w; j++ {
		ba := fmt.Sprintf("(mod (div %s %s) 2)", a.S, pow2(j).String())
		bb := fmt.Sprintf("(mod (div %s %s) 2)", b.S, pow2(j).String())
		var c string
		switch op {
		case "band":
			c = fmt.Sprintf("(and (= %s 1) (= %s 1))", ba, bb)
		case "bor":
			c = fmt.Sprintf("(or (= %s 1) (= %s 1))", ba, bb)
		case "bxor":
			c = fmt.Sprintf("(not (= %s %s))", ba, bb)
		}
		parts = append(parts, Term{fmt.Sprintf("(ite %s %s 0)", c, pow2(j).String()), SInt})
	}
	return app(SInt, "+", parts...)
}

// binop implements Go's integer/bool/string binary operators.
func (e *Enc) binop(op token.Token, x, y Value, xt, yt, rt types.Type) Value {
	switch op {
	case token.EQL:
		return Sc{eqValue(x, y, xt)}
	case token.NEQ:
		return Sc{not(eqValue(x, y, xt))}
	}
	a := x.(Sc).T
	b := y.(Sc).T
	bt, _ := xt.Underlying().(*types.Basic)
	if bt != nil && bt.Info()&types.IsString != 0 {
		switch op {
		case token.ADD:
			return Sc{app(SStr, "s.cat", a, b)}
		case token.LSS:
			return Sc{app(SBool, "s.lt", a, b)}
		case token.GTR:
			return Sc{app(SBool, "s.lt", b, a)}
		case token.LEQ:
			return Sc{not(app(SBool, "s.lt", b, a))}
		case token.GEQ:
			return Sc{not(app(SBool, "s.lt", a, b))}
		}
	}
	if bt != nil && bt.Info()&types.IsFloat != 0 {
		switch op {
		case token.ADD:
			return Sc{app(SReal, "+", a, b)}
		case token.SUB:
			return Sc{app(SReal, "-", a, b)}
		case token.MUL:
			return Sc{app(SReal, "*", a, b)}
		case token.QUO:
			return Sc{app(SReal, "/", a, b)}
		case token.LSS:
			return Sc{lt(a, b)}
		case token.LEQ:
			return Sc{le(a, b)}
		case token.GTR:
			return Sc{gt(a, b)}
		case token.GEQ:
			return Sc{ge(a, b)}
		}
		e.assumption("floating point treated as real arithmetic")
	}
	switch op {
	case token.LSS:
		return Sc{lt(a, b)}
	case token.LEQ:
		return Sc{le(a, b)}
	case token.GTR:
		return Sc{gt(a, b)}
	case token.GEQ:
		return Sc{ge(a, b)}
	case token.LAND:
		return Sc{and(a, b)}
	case token.LOR:
		return Sc{or(a, b)}
	}
	w, signed, isInt := intWidth(rt)
	if !isInt {
		if a.Sort == SBool {
			switch op {
			case token.AND:
				return Sc{and(a, b)}
			case token.OR:
				return Sc{or(a, b)}
			case token.XOR:
				return Sc{not(eq(a, b))}
			}
		}
		e.note(fmt.Sprintf("unsupported binop %s on %s", op, rt))
		return Sc{e.freshConst("binop", scalarSort(rt))}
	}
	switch op {
	case token.ADD:
		return Sc{wrapOnce(add(a, b), rt)}
	case token.SUB:
		return Sc{wrapOnce(sub(a, b), rt)}
	case token.MUL:
		return Sc{wrapTo(mul(a, b), rt)}
	case token.QUO:
		if signed {
			if c, ok := constInt(b); ok && c.Sign() > 0 {
				return Sc{Term{fmt.Sprintf("(let ((a! %s)) (ite (>= a! 0) (div a! %s) (- (div (- a!) %s))))", a.S, b.S, b.S), SInt}}
			}
			return Sc{wrapTo(tdiv(a, b), rt)}
		}
		return Sc{app(SInt, "div", a, b)}
	case token.REM:
		if signed {
			if c, ok := constInt(b); ok && c.Sign() > 0 {
				return Sc{Term{fmt.Sprintf("(let ((a! %s)) (ite (>= a! 0) (mod a! %s) (- (mod (- a!) %s))))", a.S, b.S, b.S), SInt}}
			}
			return Sc{tmod(a, b)}
		}
		return Sc{app(SInt, "mod", a, b)}
	case token.SHL:
		if c, ok := constInt(b); ok {
			if c.Cmp(big.NewInt(int64(w))) >= 0 {
				return Sc{intLit(0)}
			}
			return Sc{wrapTo(mul(a, bigLit(pow2(uint(c.Int64())))), rt)}
		}
		// variable shift: a * 2^b with 2^b as ite chain
		return Sc{wrapTo(mul(a, e.pow2Term(b, w)), rt)}
	case token.SHR:
		if c, ok := constInt(b); ok {
			if c.Cmp(big.NewInt(int64(w))) >= 0 {
				if signed {
					return Sc{ite(lt(a, intLit(0)), intLit(-1), intLit(0))}
				}
				return Sc{intLit(0)}
			}
			return Sc{app(SInt, "div", a, bigLit(pow2(uint(c.Int64()))))}
		}
		return Sc{app(SInt, "div", a, e.pow2Term(b, w))}
	case token.AND, token.OR, token.XOR, token.AND_NOT:
		ua, ub := a, b
		if signed {
			ua, ub = toUnsigned(a, w), toUnsigned(b, w)
		}
		var r Term
		ca, aok := constInt(ua)
		cb, bok := constInt(ub)
		if signed {
			// constants appear as signed literals
			if c, ok := constInt(a); ok {
				ca, aok = new(big.Int).Mod(c, pow2(w)), true
			}
			if c, ok := constInt(b); ok {
				cb, bok = new(big.Int).Mod(c, pow2(w)), true
			}
		}
		all := new(big.Int).Sub(pow2(w), big.NewInt(1))
		switch {
		case op == token.AND && bok:
			r = andConst(ua, cb, w)
		case op == token.AND && aok:
			r = andConst(ub, ca, w)
		case op == token.AND_NOT && bok:
			r = andConst(ua, new(big.Int).Xor(cb, all), w)
		case op == token.OR && bok:
			// a | c = (a & ^c) + c
			r = add(andConst(ua, new(big.Int).Xor(cb, all), w), bigLit(cb))
		case op == token.OR && aok:
			r = add(andConst(ub, new(big.Int).Xor(ca, all), w), bigLit(ca))
		case op == token.XOR && bok:
			// a ^ c = (a & ^c) + (c - (a & c))
			r = add(andConst(ua, new(big.Int).Xor(cb, all), w), sub(bigLit(cb), andConst(ua, cb, w)))
		case op == token.XOR && aok:
			r = add(andConst(ub, new(big.Int).Xor(ca, all), w), sub(bigLit(ca), andConst(ub, ca, w)))
		default:
			name := map[token.Token]string{token.AND: "band", token.OR: "bor", token.XOR: "bxor", token.AND_NOT: "bandnot"}[op]
			if name == "bandnot" {
				// a &^ b = a - (a & b)
				if w <= 16 {
					r = sub(ua, exactBitOp("band", w, ua, ub))
				} else {
					r = sub(ua, e.bitUF("band", w, ua, ub))
				}
			} else if w <= 16 {
				r = exactBitOp(name, w, ua, ub)
			} else {
				r = e.bitUF(name, w, ua, ub)
			}
		}
		if signed {
			r = fromUnsigned(r, w)
		}
		return Sc{r}
	}
	e.note(fmt.Sprintf("unsupported binop %s", op))
	return Sc{e.freshConst("binop", SInt)}
}

// pow2Term: 2^b for 0 <= b < w as an ite chain; 2^w (i.e. wraps to 0 / shifts out) otherwise.
func (e *Enc) pow2Term(b Term, w uint) Term {
	name := fmt.Sprintf("pow2w%d", w)
	if !e.declSet[name] {
		e.declSet[name] = true
		body := bigLit(pow2(w)).S
		for j := int(w) - 1; j >= 0; j-- {
			body = fmt.Sprintf("(ite (= b %d) %s %s)", j, pow2(uint(j)).String(), body)
		}
		e.decls = append(e.decls, fmt.Sprintf("(define-fun %s ((b Int)) Int %s)", name, body))
	}
	return app(SInt, name, b)
}

func constToTerm(v constant.Value, t types.Type) (Term, bool) {
	switch v.Kind() {
	case constant.Bool:
		return boolLit(constant.BoolVal(v)), true
	case constant.Int:
		bi, ok := new(big.Int).SetString(v.ExactString(), 10)
		if !ok {
			return Term{}, false
		}
		if b, isb := t.Underlying().(*types.Basic); isb && b.Info()&types.IsFloat != 0 {
			return Term{bigLit(bi).S + ".0", SReal}, true
		}
		return bigLit(bi), true
	case constant.Float:
		if b, isb := t.Underlying().(*types.Basic); isb && b.Info()&types.IsInteger != 0 {
			if i := constant.ToInt(v); i.Kind() == constant.Int {
				bi, _ := new(big.Int).SetString(i.ExactString(), 10)
				return bigLit(bi), true
			}
		}
		r, _ := new(big.Rat).SetString(v.ExactString())
		if r == nil {
			return Term{}, false
		}
		s := fmt.Sprintf("(/ %s.0 %s.0)", r.Num().String(), r.Denom().String())
		if r.Sign() < 0 {
			s = fmt.Sprintf("(- (/ %s.0 %s.0))", new(big.Int).Neg(r.Num()).String(), r.Denom().String())
		}
		return Term{s, SReal}, true
	}
	return Term{}, false
}

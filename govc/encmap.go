package main

import (
	"fmt"
	"go/types"
	"strings"

	"golang.org/x/tools/go/ssa"
)

// Map model: a map value is a reference; per map type there are heaps
//   <fam>#dom : ref -> key -> Bool,   <fam>#len : ref -> Int,   <fam>#v<i> : ref -> key -> leaf i of the value.

type mapInfo struct {
	fam     string
	keySort string
	kt, vt  types.Type
	vsorts  []string
	ok      bool
	// composite: struct key packed by an injective constructor
	composite bool
}

func (e *Enc) mapInfoOf(t types.Type) mapInfo {
	mt := t.Underlying().(*types.Map)
	mi := mapInfo{kt: mt.Key(), vt: mt.Elem()}
	mi.fam = "Map$" + sanitize(typeKey(mt.Key())) + "$" + sanitize(typeKey(mt.Elem()))
	ks := leafSorts(mt.Key())
	if len(ks) == 0 {
		return mi
	}
	if len(ks) == 1 {
		mi.keySort = ks[0]
	} else {
		// composite (struct) keys are packed into one Int by an injective constructor
		mi.keySort = SInt
		mi.composite = true
	}
	mi.vsorts = leafSorts(mt.Elem())
	mi.ok = true
	return mi
}

// normKeyLeaves lists the leaves of a key value in flatten order; fixed-size scalar arrays are normalised to
// their first N elements (SMT arrays are total, Go compares N elements).
func (e *Enc) normKeyLeaves(v Value, t types.Type) []Term {
	if a, ok := t.Underlying().(*types.Array); ok && !isOpaque(t) && shapeKindOf(t) == kScalar && a.Len() <= 16 {
		k := flatten(v)[0]
		if len(k.S) > 200 && !strings.Contains(k.S, "!q") && !strings.Contains(k.S, "qk!") && !strings.Contains(k.S, "qi!") {
			// name the array once: the normalisation below selects from it N times
			k = e.define(fmt.Sprintf("karr!%d", e.nextID()), k)
		}
		es := scalarSort(a.Elem())
		r := constArr(arrSort(SInt, es), zeroOfSort(es))
		for i := int64(0); i < a.Len(); i++ {
			r = sto(r, intLit(i), sel(k, intLit(i)))
		}
		return []Term{r}
	}
	if sv, ok := v.(StructV); ok {
		st := t.Underlying().(*types.Struct)
		var out []Term
		for i, f := range sv.F {
			out = append(out, e.normKeyLeaves(f, st.Field(i).Type())...)
		}
		return out
	}
	return flatten(v)
}

// canonical key term
func (e *Enc) mapKey(v Value, kt types.Type) Term { return e.mapKeyMemo(v, kt, nil) }

// mapKeyMemo: memo (may be nil) names equal packed keys once within one evaluation context.
func (e *Enc) mapKeyMemo(v Value, kt types.Type, memo map[string]Term) Term {
	ks := leafSorts(kt)
	if len(ks) > 1 {
		leaves := e.normKeyLeaves(v, kt)
		name := "mkkey$" + sanitize(typeKey(kt))
		if !e.declSet[name] {
			e.declareFun(name, ks, SInt)
			var vars, args []string
			for i, srt := range ks {
				vars = append(vars, fmt.Sprintf("(k%d %s)", i, srt))
				args = append(args, fmt.Sprintf("k%d", i))
			}
			appl := fmt.Sprintf("(%s %s)", smtSym(name), strings.Join(args, " "))
			var cs []string
			for i, srt := range ks {
				pn := fmt.Sprintf("%s.p%d", name, i)
				e.declareFun(pn, []string{SInt}, srt)
				cs = append(cs, fmt.Sprintf("(= (%s %s) k%d)", smtSym(pn), appl, i))
			}
			e.axiom(fmt.Sprintf("(forall (%s) (! (and %s) :pattern (%s)))", strings.Join(vars, " "), strings.Join(cs, " "), appl))
		}
		t := app(SInt, smtSym(name), leaves...)
		// name the (large) packed key once; terms under a quantifier keep their bound variables inline
		if !strings.Contains(t.S, "!q") && !strings.Contains(t.S, "qk!") && !strings.Contains(t.S, "qi!") {
			if memo != nil {
				if d, ok := memo[t.S]; ok {
					return d
				}
			}
			d := e.define(fmt.Sprintf("key!%d", e.nextID()), t)
			if memo != nil {
				memo[t.S] = d
			}
			return d
		}
		return t
	}
	return e.normKeyLeaves(v, kt)[0]
}

func (e *Enc) mapDom(h *HeapState, mi mapInfo, m Term) Term {
	return sel(h.get(mi.fam+"#dom", arrSort(SInt, arrSort(mi.keySort, SBool))), m)
}

func (e *Enc) mapLen(h *HeapState, mi mapInfo, m Term) Term {
	return sel(h.get(mi.fam+"#len", arrSort(SInt, SInt)), m)
}

func (e *Enc) mapGet(h *HeapState, mi mapInfo, m, k Term) Value {
	leaves := make([]Term, len(mi.vsorts))
	for i, s := range mi.vsorts {
		leaves[i] = sel(sel(h.get(fmt.Sprintf("%s#v%d", mi.fam, i), arrSort(SInt, arrSort(mi.keySort, s))), m), k)
	}
	v, _ := unflatten(mi.vt, leaves)
	return v
}

func (e *Enc) mapSet(h *HeapState, mi mapInfo, m, k Term, v Value) {
	dom := e.mapDom(h, mi, m)
	ln := e.mapLen(h, mi, m)
	had := e.define(fmt.Sprintf("had!%d", e.nextID()), sel(dom, k))
	for i, lf := range flatten(v) {
		name := fmt.Sprintf("%s#v%d", mi.fam, i)
		as := arrSort(SInt, arrSort(mi.keySort, mi.vsorts[i]))
		old := h.get(name, as)
		h.set(name, e.define(fmt.Sprintf("%s@s%d", name, e.nextID()), sto(old, m, sto(sel(old, m), k, lf))))
	}
	dn := mi.fam + "#dom"
	das := arrSort(SInt, arrSort(mi.keySort, SBool))
	h.set(dn, e.define(fmt.Sprintf("%s@s%d", dn, e.nextID()), sto(h.get(dn, das), m, sto(dom, k, tTrue))))
	ln2 := ite(had, ln, add(ln, intLit(1)))
	lnn := mi.fam + "#len"
	h.set(lnn, e.define(fmt.Sprintf("%s@s%d", lnn, e.nextID()), sto(h.get(lnn, arrSort(SInt, SInt)), m, ln2)))
}

func (e *Enc) mapDelete(h *HeapState, mi mapInfo, m, k Term) {
	dom := e.mapDom(h, mi, m)
	ln := e.mapLen(h, mi, m)
	had := e.define(fmt.Sprintf("had!%d", e.nextID()), sel(dom, k))
	dn := mi.fam + "#dom"
	das := arrSort(SInt, arrSort(mi.keySort, SBool))
	// deleting from a nil map is a no-op; dom of nil map is empty by the map well-formedness assumption
	h.set(dn, e.define(fmt.Sprintf("%s@s%d", dn, e.nextID()), sto(h.get(dn, das), m, sto(dom, k, tFalse))))
	ln2 := ite(had, sub(ln, intLit(1)), ln)
	lnn := mi.fam + "#len"
	h.set(lnn, e.define(fmt.Sprintf("%s@s%d", lnn, e.nextID()), sto(h.get(lnn, arrSort(SInt, SInt)), m, ln2)))
}

// mapWF: facts true of every map value.
func (e *Enc) mapWF(h *HeapState, mi mapInfo, m Term, k *Term) Term {
	ln := e.mapLen(h, mi, m)
	cs := []Term{ge(ln, intLit(0))}
	if k != nil {
		cs = append(cs, implies(sel(e.mapDom(h, mi, m), *k), ge(ln, intLit(1))))
		cs = append(cs, implies(eq(m, intLit(0)), not(sel(e.mapDom(h, mi, m), *k))))
	}
	cs = append(cs, implies(eq(m, intLit(0)), eq(ln, intLit(0))))
	return and(cs...)
}

func (e *Enc) makeMap(x *ssa.MakeMap) {
	mi := e.mapInfoOf(x.Type())
	r := e.freshConst("map", SInt)
	e.assume(and(not(eq(r, intLit(0))), e.freshRefFact(r)), "make(map) allocates")
	if mi.ok {
		dom := e.mapDom(e.cur, mi, r)
		e.assume(and(eq(dom, constArr(arrSort(mi.keySort, SBool), tFalse)), eq(e.mapLen(e.cur, mi, r), intLit(0))), "fresh map is empty")
	}
	e.vals[x] = Sc{r}
}

func (e *Enc) mapUpdate(x *ssa.MapUpdate) {
	mi := e.mapInfoOf(x.Map.Type())
	m := e.sc(x.Map)
	e.assertOb(fmt.Sprintf("safe:nilmap#%d", e.ordinal("nilmap")), not(eq(m, intLit(0))), "assignment to entry in nil map", posOf(x))
	if !mi.ok {
		e.note("map with composite key: update havocs the map heaps")
		e.cur.havocAll()
		return
	}
	e.mapSet(e.cur, mi, m, e.mapKey(e.val(x.Key), mi.kt), e.val(x.Value))
}

func (e *Enc) lookup(x *ssa.Lookup) {
	if _, isMap := x.X.Type().Underlying().(*types.Map); !isMap {
		// string index
		s := e.sc(x.X)
		i := e.sc(x.Index)
		e.boundsCheck(i, app(SInt, "s.len", s), x, "string")
		e.setVal(x, Sc{app(SInt, "s.at", s, i)})
		e.assume(and(le(intLit(0), e.vals[x].(Sc).T), le(e.vals[x].(Sc).T, intLit(255))), "string byte")
		return
	}
	mi := e.mapInfoOf(x.X.Type())
	m := e.sc(x.X)
	mt := x.X.Type().Underlying().(*types.Map)
	if !mi.ok {
		e.note("map with composite key: lookup nondeterministic")
		e.setVal(x, e.freshValue(x.Name(), x.Type()))
		return
	}
	k := e.mapKey(e.val(x.Index), mi.kt)
	e.assume(e.mapWF(e.cur, mi, m, &k), "map well-formedness")
	in := e.define(x.Name()+".in", sel(e.mapDom(e.cur, mi, m), k))
	v := iteValue(in, e.mapGet(e.cur, mi, m, k), zeroValue(mt.Elem()))
	v = e.defineValue(x.Name()+".v", v)
	e.assume(rangeFact(v, mt.Elem()), "map value well typed")
	if x.CommaOk {
		e.vals[x] = TupleV{[]Value{v, Sc{in}}}
	} else {
		e.vals[x] = v
	}
}

// ---------------------------------------------------------------------------
// range over maps and strings

type rangeState struct {
	isMap bool
	mi    mapInfo
	m     Term
	dom0  Term // domain at loop entry
	len0  Term // length at loop entry
	str   Term
}

func (e *Enc) rangeInstr(x *ssa.Range) {
	rs := &rangeState{}
	if _, ok := x.X.Type().Underlying().(*types.Map); ok {
		rs.isMap = true
		rs.mi = e.mapInfoOf(x.X.Type())
		rs.m = e.sc(x.X)
		if rs.mi.ok {
			rs.dom0 = e.define(x.Name()+".dom0", e.mapDom(e.cur, rs.mi, rs.m))
			rs.len0 = e.define(x.Name()+".len0", e.mapLen(e.cur, rs.mi, rs.m))
		}
	} else {
		rs.str = e.sc(x.X)
	}
	e.ranges[x] = rs
	e.vals[x] = Sc{intLit(0)}
}

func (e *Enc) next(x *ssa.Next) {
	rg, _ := x.Iter.(*ssa.Range)
	rs := e.ranges[rg]
	tt := x.Type().(*types.Tuple)
	ok := e.freshConst(x.Name()+".ok", SBool)
	if rs == nil {
		e.note("Next on unknown iterator")
		e.setVal(x, e.freshValue(x.Name(), x.Type()))
		return
	}
	if rs.isMap {
		kt := tt.At(1).Type()
		if rs.mi.ok {
			kt = rs.mi.kt
		}
		kv := e.freshValue(x.Name()+".k", kt)
		var vv Value
		if rs.mi.ok {
			k := e.mapKey(kv, rs.mi.kt)
			// the key was in the map when the loop started; the value is the current one
			e.assume(implies(ok, and(sel(rs.dom0, k), not(eq(rs.m, intLit(0))))), "range yields keys of the map")
			if !strings.HasPrefix(rs.mi.keySort, "(Array") {
				// cardinality: a map of length 1 has a single key
				w := e.freshConst(x.Name()+".only", rs.mi.keySort)
				e.assume(implies(eq(rs.len0, intLit(1)), mk(SBool, "(forall ((qk! %s)) (! (=> (select %s qk!) (= qk! %s)) :pattern ((select %s qk!))))", rs.mi.keySort, rs.dom0.S, w.S, rs.dom0.S)), "a map of length 1 has exactly one key")
			}
			cur := e.mapGet(e.cur, rs.mi, rs.m, k)
			vv = e.defineValue(x.Name()+".v", cur)
			e.assume(rangeFact(vv, rs.mi.vt), "map value well typed")
			// iteration ghost: seen set
			e.rangeKeys[x] = k
		} else {
			vv = e.freshValue(x.Name()+".v", x.Iter.(*ssa.Range).X.Type().Underlying().(*types.Map).Elem())
		}
		e.vals[x] = TupleV{[]Value{Sc{ok}, kv, vv}}
		return
	}
	// string: (ok, index, rune)
	idx := e.freshConst(x.Name()+".i", SInt)
	r := e.freshConst(x.Name()+".r", SInt)
	e.assume(implies(ok, and(le(intLit(0), idx), lt(idx, app(SInt, "s.len", rs.str)), le(intLit(0), r), le(r, intLit(1114111)))), "string range")
	e.assume(implies(and(ok, lt(app(SInt, "s.at", rs.str, idx), intLit(128))), eq(r, app(SInt, "s.at", rs.str, idx))), "ASCII rune equals byte")
	e.vals[x] = TupleV{[]Value{Sc{ok}, Sc{idx}, Sc{r}}}
}

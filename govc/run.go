package main

import (
	"fmt"
	"go/token"
	"go/types"
	"strings"

	"golang.org/x/tools/go/ssa"
)

type encError struct{ msg string }

func (e *Enc) fatal(format string, a ...interface{}) {
	panic(encError{fmt.Sprintf(format, a...)})
}

const preamble = `(declare-sort Str 0)
(declare-fun s.len (Str) Int)
(declare-fun s.at (Str Int) Int)
(declare-fun s.cat (Str Str) Str)
(declare-fun s.sub (Str Int Int) Str)
(declare-fun s.lt (Str Str) Bool)
(declare-fun s.fromrune (Int) Str)
(declare-fun s.empty () Str)
(assert (= (s.len s.empty) 0))
(assert (forall ((s Str)) (! (>= (s.len s) 0) :pattern ((s.len s)))))
(assert (forall ((s Str)) (! (=> (= (s.len s) 0) (= s s.empty)) :pattern ((s.len s)))))
(assert (forall ((s Str) (i Int)) (! (and (<= 0 (s.at s i)) (<= (s.at s i) 255)) :pattern ((s.at s i)))))
(assert (forall ((a Str) (b Str)) (! (= (s.len (s.cat a b)) (+ (s.len a) (s.len b))) :pattern ((s.cat a b)))))
(assert (forall ((a Str) (b Str) (i Int)) (! (= (s.at (s.cat a b) i) (ite (< i (s.len a)) (s.at a i) (s.at b (- i (s.len a))))) :pattern ((s.at (s.cat a b) i)))))
(assert (forall ((s Str) (i Int) (j Int)) (! (=> (and (<= 0 i) (<= i j) (<= j (s.len s))) (= (s.len (s.sub s i j)) (- j i))) :pattern ((s.sub s i j)))))
(assert (forall ((s Str) (i Int) (j Int) (k Int)) (! (=> (and (<= 0 i) (<= i j) (<= j (s.len s)) (<= 0 k) (< k (- j i))) (= (s.at (s.sub s i j) k) (s.at s (+ i k)))) :pattern ((s.at (s.sub s i j) k)))))
(declare-fun eref (Int Int) Int)
(declare-fun eref.base (Int) Int)
(declare-fun eref.idx (Int) Int)
(declare-fun sref (Int Int Int) Int)
(assert (forall ((b Int) (o Int) (i Int)) (! (= (sref b o i) (eref b (+ o i))) :pattern ((sref b o i)))))
(declare-fun ref.tag (Int) Int)
(declare-fun iface.type (Int) Int)
(assert (forall ((b Int) (i Int)) (! (and (= (eref.base (eref b i)) b) (= (eref.idx (eref b i)) i) (not (= (eref b i) 0)) (= (ref.tag (eref b i)) 1)) :pattern ((eref b i)))))
`

func newEnc(w *World, fn *ssa.Function, fc *FuncContract) *Enc {
	e := &Enc{W: w, fn: fn, fc: fc}
	e.reset()
	pkg := fn.Pkg
	if pkg == nil && fn.Parent() != nil {
		pkg = fn.Parent().Pkg
	}
	if pkg != nil {
		e.shortPkg = pkg.Pkg.Name()
	}
	e.fnLabel = e.shortPkg + "." + contractName(fn)
	return e
}

func (e *Enc) reset() {
	e.decls = nil
	e.declSet = map[string]bool{}
	e.axioms = nil
	e.items = nil
	e.vals = map[ssa.Value]Value{}
	e.locs = map[ssa.Value]Loc{}
	e.reach = map[*ssa.BasicBlock]Term{}
	e.edges = map[[2]int]Term{}
	e.hout = map[*ssa.BasicBlock]*HeapState{}
	e.counters = map[string]int{}
	e.idc = 0
	e.notes = nil
	e.noteSet = map[string]bool{}
	e.assumed = nil
	e.assSet = map[string]bool{}
	e.defers = nil
	e.strlits = map[string]Term{}
	e.callOrd = map[string]int{}
	e.retOrd = 0
	e.obligs = 0
	e.allocs = nil
	e.ptrParams = nil
	e.ranges = map[*ssa.Range]*rangeState{}
	e.rangeKeys = map[*ssa.Next]Term{}
	e.curR = tTrue
	e.curB = nil
	e.backOrd = map[*ssa.BasicBlock]int{}
	if e.famSorts == nil {
		e.famSorts = map[string]string{}
	}
}

// Encode runs the discovery pass and then the real pass.
func (e *Enc) Encode() (err error) {
	defer func() {
		if r := recover(); r != nil {
			if ee, ok := r.(encError); ok {
				err = fmt.Errorf("%s: %s", e.fnLabel, ee.msg)
				return
			}
			panic(r)
		}
	}()
	if len(e.fn.Blocks) == 0 {
		return fmt.Errorf("%s has no body", e.fnLabel)
	}
	e.analyseLoops()
	if e.fc != nil {
		for k := range e.fc.Loops {
			if k < 1 || k > len(e.loopList) {
				return fmt.Errorf("%s: contract names loop %d but the function has %d loops", e.fnLabel, k, len(e.loopList))
			}
		}
	}
	e.disc = map[*ssa.BasicBlock]map[string]bool{}
	e.discovery = true
	e.encodeBody()
	disc := e.disc
	e.discovery = false
	e.reset()
	for _, li := range e.loopList {
		li.writes = disc[li.header]
	}
	e.encodeBody()
	return nil
}

func (e *Enc) baseCtx() *SpecCtx {
	ctx := &SpecCtx{e: e, heap: e.cur, old: e.entry, vars: map[string]TV{}, pkg: e.pkgTypes(), lets: map[string]*Macro{}, ghost: map[string]ghostInst{}}
	if e.fc != nil {
		ctx.lets = letsOf(e.fc)
		ctx.ghost = e.selfGhost
		ctx.owner = e.fc
	}
	for _, p := range e.fn.Params {
		ctx.vars[p.Name()] = TV{e.vals[p], p.Type()}
	}
	return ctx
}

func (e *Enc) pkgTypes() *types.Package {
	f := e.fn
	for f.Pkg == nil && f.Parent() != nil {
		f = f.Parent()
	}
	if f.Pkg == nil {
		if o := f.Origin(); o != nil && o.Pkg != nil {
			return o.Pkg.Pkg
		}
		return nil
	}
	return f.Pkg.Pkg
}

func (e *Enc) encodeBody() {
	fn := e.fn
	e.entry = e.newBaseHeap("@0")
	e.cur = e.entry.clone()
	e.curR = tTrue
	// parameters
	for _, p := range fn.Params {
		v := e.freshValueNoRange("p$"+p.Name(), p.Type())
		e.vals[p] = v
		e.assumeGlobal(rangeFact(v, p.Type()), "parameter "+p.Name()+" well typed")
		if s, ok := v.(Sc); ok && s.T.Sort == SInt {
			switch p.Type().Underlying().(type) {
			case *types.Pointer, *types.Map:
				e.ptrParams = append(e.ptrParams, s.T)
			}
		}
	}
	if fn.Signature.Recv() != nil && len(fn.Params) > 0 {
		if _, isPtr := fn.Params[0].Type().Underlying().(*types.Pointer); isPtr {
			e.assumeGlobal(not(eq(e.vals[fn.Params[0]].(Sc).T, intLit(0))), "receiver non-nil")
			e.assumption("pointer receivers are non-nil on entry")
		}
	}
	for _, fv := range fn.FreeVars {
		v := e.freshValueNoRange("fv$"+fv.Name(), fv.Type())
		e.vals[fv] = v
		if s, ok := v.(Sc); ok {
			e.assumeGlobal(not(eq(s.T, intLit(0))), "captured variable cell non-nil")
			e.ptrParams = append(e.ptrParams, s.T)
		}
	}
	if e.fc != nil {
		e.selfGhost = e.instGhosts(e.fc, "self")
		ctx := e.baseCtx()
		for _, a := range e.fc.Assumes {
			t, err := ctx.EvalBool(a.E)
			if err != nil {
				e.fatal("assume: %v", err)
			}
			e.assumeGlobal(t, "definitional axiom: "+a.Src)
			e.assumption("definitional axiom in contract of " + e.fnLabel + ": " + a.Src)
		}
		for _, r := range e.fc.Requires {
			t, err := ctx.EvalBool(r.E)
			if err != nil {
				e.fatal("requires: %v", err)
			}
			e.assumeGlobal(t, "requires "+r.Src)
		}
		e.items = append(e.items, Item{Kind: itProbe, Text: "true", Name: e.fnLabel + "/vacuity:requires", Desc: "probe"})
		for j, l := range e.fc.Lemmas {
			t, err := ctx.EvalBool(l.E)
			if err != nil {
				e.fatal("lemma: %v", err)
			}
			e.assertOb(fmt.Sprintf("lemma#%d", j+1), t, "lemma "+l.Src, token.NoPos)
		}
	}

	order := e.topoOrder()
	for _, b := range order {
		e.block(b)
	}
}

func (e *Enc) block(b *ssa.BasicBlock) {
	fn := e.fn
	e.curB = b
	var ins []heapParent
	var inEdges []Term
	var inPreds []*ssa.BasicBlock
	if b == fn.Blocks[0] {
		e.curR = tTrue
		e.cur = e.cur // entry heap already set
	} else {
		for _, p := range b.Preds {
			if e.isBackEdge(p, b) {
				continue
			}
			et, ok := e.edges[[2]int{p.Index, b.Index}]
			if !ok {
				continue // predecessor not reachable
			}
			ins = append(ins, heapParent{et, e.hout[p]})
			inEdges = append(inEdges, et)
			inPreds = append(inPreds, p)
		}
		if len(ins) == 0 {
			return
		}
		e.curR = e.define(fmt.Sprintf("reach.b%d", b.Index), or(inEdges...))
		e.cur = joinHeaps(e, ins)
	}
	e.reach[b] = e.curR

	li := e.loops[b]
	if li != nil {
		// establish invariants on each entry edge
		for i, p := range inPreds {
			e.assertInvariants(li, p, inEdges[i], e.hout[p], fmt.Sprintf("init"))
		}
		if b == fn.Blocks[0] {
			e.fatal("loop header is the entry block")
		}
		// havoc
		nh := &HeapState{enc: e, m: map[string]Term{}, parents: []heapParent{{tTrue, e.cur}}, epoch: e.cur.epoch}
		if li.writes["*"] {
			nh = e.newBaseHeap(fmt.Sprintf("@L%d", li.ordinal))
		} else if len(li.writes) > 0 {
			entryHeap := e.cur
			for name := range li.writes {
				// sort is recovered from the entry heap's knowledge of the family
				sort := e.famSort(name, entryHeap)
				if sort == "" {
					continue
				}
				nh.m[name] = e.declare(fmt.Sprintf("%s@L%d", name, li.ordinal), sort)
			}
			for name := range li.writes {
				if !strings.HasPrefix(name, "L$") {
					nh.epoch = e.freshConst("epoch", SInt)
					break
				}
			}
		}
		e.cur = nh
		for _, in := range b.Instrs {
			p, ok := in.(*ssa.Phi)
			if !ok {
				break
			}
			v := e.freshValueNoRange(p.Name(), p.Type())
			e.vals[p] = v
			e.assume(rangeFact(v, p.Type()), "loop-carried value well typed")
		}
		e.assumeInvariants(li)
	} else {
		for _, in := range b.Instrs {
			p, ok := in.(*ssa.Phi)
			if !ok {
				break
			}
			var v Value
			first := true
			// iterate in reverse so that the first edge ends up outermost
			for i := len(inPreds) - 1; i >= 0; i-- {
				pi := predIndex(b, inPreds[i])
				ev := e.val(p.Edges[pi])
				if first {
					v = ev
					first = false
				} else {
					v = iteValue(inEdges[i], ev, v)
				}
			}
			e.setVal(p, v)
		}
	}

	for _, in := range b.Instrs {
		e.instr(in)
	}
	e.hout[b] = e.cur

	// terminator
	last := b.Instrs[len(b.Instrs)-1]
	switch t := last.(type) {
	case *ssa.If:
		c := e.sc(t.Cond)
		e.edge(b, b.Succs[0], and(e.curR, c))
		e.edge(b, b.Succs[1], and(e.curR, not(c)))
	case *ssa.Jump:
		e.edge(b, b.Succs[0], e.curR)
	case *ssa.Return:
		e.ret(t)
	case *ssa.Panic:
		if e.fc == nil || !e.fc.MayPanic {
			e.assertOb(fmt.Sprintf("safe:panic#%d", e.ordinal("panic")), tFalse, "explicit panic reachable", posOf(t))
		}
	}
}

func predIndex(b, p *ssa.BasicBlock) int {
	for i, x := range b.Preds {
		if x == p {
			return i
		}
	}
	panic("predIndex")
}

func (e *Enc) edge(from, to *ssa.BasicBlock, cond Term) {
	name := fmt.Sprintf("edge.b%d.b%d", from.Index, to.Index)
	if _, dup := e.edges[[2]int{from.Index, to.Index}]; dup {
		// both branches of an If lead to the same block
		cond = or(e.edges[[2]int{from.Index, to.Index}], cond)
		name += "x"
	}
	et := e.define(name, cond)
	if e.isBackEdge(from, to) {
		li := e.loops[to]
		e.backOrd[to]++
		e.assertInvariants(li, from, et, e.cur, fmt.Sprintf("keep.e%d", e.backOrd[to]))
		return
	}
	e.edges[[2]int{from.Index, to.Index}] = et
}

// famSort finds the sort of a heap family from its name.
func (e *Enc) famSort(name string, h *HeapState) string {
	if t, ok := e.famSorts[name]; ok {
		return t
	}
	return ""
}

// invariant handling --------------------------------------------------------

func (e *Enc) loopCtx(li *loopInfo, heap *HeapState, phiSub map[ssa.Value]Value) *SpecCtx {
	ctx := e.baseCtx()
	ctx.heap = heap
	ctx.at = li.header
	ctx.phiSub = phiSub
	return ctx
}

// autoInvariants derives range-loop bounds:  -1 <= idx < n.
func (e *Enc) autoInvariants(li *loopInfo, sub map[ssa.Value]Value) []Term {
	var out []Term
	h := li.header
	var idxPhi *ssa.Phi
	for _, in := range h.Instrs {
		if p, ok := in.(*ssa.Phi); ok && p.Comment == "rangeindex" {
			idxPhi = p
		}
	}
	if idxPhi == nil {
		return nil
	}
	// pattern: t = phi + 1 ; c = t < n ; if c
	var n ssa.Value
	for _, in := range h.Instrs {
		if bo, ok := in.(*ssa.BinOp); ok && bo.Op == token.LSS {
			if inc, ok := bo.X.(*ssa.BinOp); ok && inc.Op == token.ADD && inc.X == idxPhi {
				n = bo.Y
			}
		}
	}
	if n == nil {
		return nil
	}
	if ni, ok := n.(ssa.Instruction); ok && li.body[ni.Block()] {
		return nil
	}
	var pv Term
	if s, ok := sub[idxPhi]; ok {
		pv = s.(Sc).T
	} else {
		pv = e.val(idxPhi).(Sc).T
	}
	nv := e.sc(n)
	out = append(out, and(le(intLit(-1), pv), lt(pv, nv)))
	return out
}

func (e *Enc) assertInvariants(li *loopInfo, from *ssa.BasicBlock, edgeCond Term, heap *HeapState, kind string) {
	sub := map[ssa.Value]Value{}
	pi := predIndex(li.header, from)
	for _, in := range li.header.Instrs {
		p, ok := in.(*ssa.Phi)
		if !ok {
			break
		}
		sub[p] = e.val(p.Edges[pi])
	}
	saveR, saveH := e.curR, e.cur
	e.curR = edgeCond
	e.cur = heap
	for j, t := range e.autoInvariants(li, sub) {
		e.assertOb(fmt.Sprintf("loop%d/%s/auto#%d", li.ordinal, kind, j+1), t, "range index bounds", token.NoPos)
	}
	if li.lc != nil {
		ctx := e.loopCtx(li, heap, sub)
		for j, inv := range li.lc.Invariants {
			t, err := ctx.EvalBool(inv.E)
			if err != nil {
				if strings.Contains(err.Error(), "unknown identifier") {
					e.note(fmt.Sprintf("loop %d invariant #%d dropped (not assumed, not asserted): %v", li.ordinal, j+1, err))
					continue
				}
				e.fatal("loop %d invariant: %v", li.ordinal, err)
			}
			e.assertOb(fmt.Sprintf("loop%d/%s#%d", li.ordinal, kind, j+1), t, "invariant "+inv.Src, token.NoPos)
		}
	}
	e.curR, e.cur = saveR, saveH
}

func (e *Enc) assumeInvariants(li *loopInfo) {
	for _, t := range e.autoInvariants(li, nil) {
		e.assume(t, "range index bounds")
	}
	if li.lc != nil {
		ctx := e.loopCtx(li, e.cur, nil)
		for _, inv := range li.lc.Invariants {
			t, err := ctx.EvalBool(inv.E)
			if err != nil {
				if strings.Contains(err.Error(), "unknown identifier") {
					continue
				}
				e.fatal("loop %d invariant: %v", li.ordinal, err)
			}
			e.assume(t, "invariant "+inv.Src)
		}
	}
	e.items = append(e.items, Item{Kind: itProbe, Text: e.curR.S, Name: fmt.Sprintf("%s/vacuity:loop%d", e.fnLabel, li.ordinal), Desc: "probe"})
}

// return ---------------------------------------------------------------------

func (e *Enc) ret(r *ssa.Return) {
	e.retOrd++
	if e.fc == nil || len(e.fc.Ensures) == 0 {
		return
	}
	ctx := e.baseCtx()
	ctx.heap = e.cur
	sig := e.fn.Signature
	names := resultNames(sig)
	for i, n := range names {
		ctx.vars[n] = TV{e.val(r.Results[i]), sig.Results().At(i).Type()}
	}
	if len(names) == 1 {
		ctx.vars["result"] = ctx.vars[names[0]]
	}
	for j, en := range e.fc.Ensures {
		t, err := ctx.EvalBool(en.E)
		if err != nil {
			e.fatal("ensures: %v", err)
		}
		e.assertOb(fmt.Sprintf("post#%d@ret%d", j+1, e.retOrd), t, "ensures "+en.Src, posOf(r))
	}
}

// Query generation ------------------------------------------------------------

// QueryFor builds the SMT-LIB text for obligation/probe item i.
func (e *Enc) QueryFor(i int) string {
	var sb strings.Builder
	sb.WriteString(preamble)
	for _, d := range e.decls {
		sb.WriteString(d)
		sb.WriteString("\n")
	}
	for _, a := range e.axioms {
		sb.WriteString(a)
		sb.WriteString("\n")
	}
	for j := 0; j < i; j++ {
		it := e.items[j]
		switch it.Kind {
		case itDefine:
			sb.WriteString(it.Text)
		case itProbe:
			continue
		case itAssume, itAssert:
			if it.Text == "true" || it.Term {
				continue
			}
			sb.WriteString("(assert ")
			sb.WriteString(it.Text)
			sb.WriteString(")")
		}
		sb.WriteString("\n")
	}
	it := e.items[i]
	if it.Kind == itAssert {
		sb.WriteString("(assert (not ")
		sb.WriteString(it.Text)
		sb.WriteString("))\n")
	} else {
		sb.WriteString("(assert ")
		sb.WriteString(it.Text)
		sb.WriteString(")\n")
	}
	sb.WriteString("(check-sat)\n")
	return sb.String()
}

package main

import (
	"fmt"
	"go/ast"
	"go/token"
	"go/types"
	"sort"
	"strings"

	"golang.org/x/tools/go/ssa"
)

type encError struct{ msg string }

func (e *Enc) fatal(format string, a ...interface{}) {
	panic(encError{fmt.Sprintf(format, a...)})
}

const preamble = `(declare-sort Str 0)
(declare-fun s.len (Str) Int)
(declare-fun s.at (Str Int) Int)
(declare-fun s.cat (Str Str) Str)
(declare-fun s.sub (Str Int Int) Str)
(declare-fun s.lt (Str Str) Bool)
(declare-fun s.fromrune (Int) Str)
(declare-fun s.empty () Str)
(declare-fun s.chr (Int) Str)
(assert (forall ((c Int)) (! (and (= (s.len (s.chr c)) 1) (=> (and (<= 0 c) (<= c 255)) (= (s.at (s.chr c) 0) c))) :pattern ((s.chr c)))))
(assert (= (s.len s.empty) 0))
(assert (forall ((s Str)) (! (and (>= (s.len s) 0) (<= (s.len s) 1152921504606846976)) :pattern ((s.len s)))))
(assert (forall ((s Str)) (! (=> (= (s.len s) 0) (= s s.empty)) :pattern ((s.len s)))))
(assert (forall ((s Str) (i Int)) (! (and (<= 0 (s.at s i)) (<= (s.at s i) 255)) :pattern ((s.at s i)))))
(assert (forall ((a Str) (b Str)) (! (= (s.len (s.cat a b)) (+ (s.len a) (s.len b))) :pattern ((s.cat a b)))))
(assert (forall ((a Str) (b Str) (i Int)) (! (= (s.at (s.cat a b) i) (ite (< i (s.len a)) (s.at a i) (s.at b (- i (s.len a))))) :pattern ((s.at (s.cat a b) i)))))
(assert (forall ((s Str) (i Int) (j Int)) (! (=> (and (<= 0 i) (<= i j) (<= j (s.len s))) (= (s.len (s.sub s i j)) (- j i))) :pattern ((s.sub s i j)))))
(assert (forall ((s Str) (i Int) (j Int) (k Int)) (! (=> (and (<= 0 i) (<= i j) (<= j (s.len s)) (<= 0 k) (< k (- j i))) (= (s.at (s.sub s i j) k) (s.at s (+ i k)))) :pattern ((s.at (s.sub s i j) k)))))
(declare-fun eref (Int Int) Int)
(declare-fun eref.base (Int) Int)
(declare-fun eref.idx (Int) Int)
(declare-fun sref (Int Int Int) Int)
(assert (forall ((b Int) (o Int) (i Int)) (! (= (sref b o i) (eref b (+ o i))) :pattern ((sref b o i)))))
(declare-fun ref.tag (Int) Int)
(declare-fun ref.root (Int) Int)
(declare-fun ref.old (Int) Bool)
(declare-fun ref.time (Int) Int)
(assert (forall ((b Int) (i Int)) (! (= (ref.root (eref b i)) (ref.root b)) :pattern ((eref b i)))))
(declare-fun iface.type (Int) Int)
(assert (forall ((b Int) (i Int)) (! (and (= (eref.base (eref b i)) b) (= (eref.idx (eref b i)) i) (not (= (eref b i) 0)) (= (ref.tag (eref b i)) 1)) :pattern ((eref b i)))))
`

func newEnc(w *World, fn *ssa.Function, fc *FuncContract) *Enc {
	e := &Enc{W: w, fn: fn, fc: fc}
	e.reset()
	pkg := fn.Pkg
	if pkg == nil && fn.Parent() != nil {
		pkg = fn.Parent().Pkg
	}
	if pkg != nil {
		e.shortPkg = pkg.Pkg.Name()
	}
	e.fnLabel = e.shortPkg + "." + contractName(fn)
	return e
}

func (e *Enc) reset() {
	e.decls = nil
	e.sentinels = nil
	e.unstatable = nil
	e.closureOf = nil
	e.declSet = map[string]bool{}
	e.axioms = nil
	e.items = nil
	e.vals = map[ssa.Value]Value{}
	e.locs = map[ssa.Value]Loc{}
	e.reach = map[*ssa.BasicBlock]Term{}
	e.edges = map[[2]int]Term{}
	e.hout = map[*ssa.BasicBlock]*HeapState{}
	e.counters = map[string]int{}
	e.idc = 0
	e.notes = nil
	e.noteSet = map[string]bool{}
	e.assumed = nil
	e.assSet = map[string]bool{}
	e.defers = nil
	e.strlits = map[string]Term{}
	e.callOrd = map[string]int{}
	e.retOrd = 0
	e.obligs = 0
	e.allocs = nil
	e.ptrParams = nil
	e.ranges = map[*ssa.Range]*rangeState{}
	e.rangeKeys = map[*ssa.Next]Term{}
	e.curR = tTrue
	e.curB = nil
	e.backOrd = map[*ssa.BasicBlock]int{}
	e.axiomMemo = map[string]bool{}
	e.atOrd = map[string]int{}
	e.atOrdPat = map[string]int{}
	if e.callKeys == nil {
		e.callKeys = map[string]string{}
	}
	if e.famSorts == nil {
		e.famSorts = map[string]string{}
	}
}

// Encode runs the discovery pass and then the real pass.
func (e *Enc) Encode() (err error) {
	defer func() {
		if r := recover(); r != nil {
			if ee, ok := r.(encError); ok {
				err = fmt.Errorf("%s: %s", e.fnLabel, ee.msg)
				return
			}
			panic(r)
		}
	}()
	if len(e.fn.Blocks) == 0 {
		return fmt.Errorf("%s has no body", e.fnLabel)
	}
	e.analyseLoops()
	if e.fc != nil {
		for k := range e.fc.Loops {
			if k < 1 || k > len(e.loopList) {
				// reported below as a failed obligation: the invariants were stated for a loop the body no longer has
				e.missingLoops = append(e.missingLoops, k)
			}
		}
		sort.Ints(e.missingLoops)
	}
	e.disc = map[*ssa.BasicBlock]map[string]bool{}
	e.allWrites = map[string]bool{}
	e.discovery = true
	e.encodeBody()
	disc := e.disc
	e.discovery = false
	allW := e.allWrites
	e.reset()
	e.allWrites = allW
	for _, li := range e.loopList {
		li.writes = disc[li.header]
	}
	e.encodeBody()
	{
		var qs []string
		for q := range e.callQueries {
			qs = append(qs, q)
		}
		sort.Strings(qs)
		for _, q := range qs {
			found := false
			for k := range e.callKeys {
				if strings.HasSuffix(k, q) {
					found = true
					break
				}
			}
			if !found {
				// a misspelt or vanished callee would make calls("...") a silent constant 0
				e.curR = tTrue
				e.assertOb("calls-unmatched:"+q, tFalse, fmt.Sprintf("the contract counts calls to %q, but the body makes no call whose name ends so", q), token.NoPos)
			}
		}
	}
	for _, k := range e.missingLoops {
		e.curR = tTrue
		e.assertOb(fmt.Sprintf("loop-missing#%d", k), tFalse,
			fmt.Sprintf("the contract states invariants for loop %d, but the body has %d loops", k, len(e.loopList)), token.NoPos)
	}
	if e.fc != nil {
		for i, ar := range e.fc.AtReturns {
			if !ar.Used {
				e.curR = tTrue
				e.assertOb(fmt.Sprintf("return-missing#%d.%d", ar.Ord, i+1), tFalse,
					fmt.Sprintf("the contract asserts `%s` at return %d, but the body has no such (reachable) return", ar.C.Src, ar.Ord), token.NoPos)
			}
		}
		for i, ac := range e.fc.AtCalls {
			if !ac.Used {
				// the contract anchors a claim at a call that the body no longer makes: the claim cannot be
				// established, which is reported as a failed obligation (not as an engine error)
				e.curR = tTrue
				e.assertOb(fmt.Sprintf("anchor-missing@%s#%d.%d", shortName(ac.Callee), ac.Ord, i+1), tFalse,
					fmt.Sprintf("the contract anchors `%s` at call %s#%d, but the body makes no such call", ac.C.Src, ac.Callee, ac.Ord), token.NoPos)
			}
		}
	}
	return nil
}

func (e *Enc) baseCtx() *SpecCtx {
	ctx := &SpecCtx{e: e, heap: e.cur, old: e.entry, vars: map[string]TV{}, pkg: e.pkgTypes(), lets: map[string]*Macro{}, ghost: map[string]ghostInst{}}
	if e.fc != nil {
		ctx.lets = letsOf(e.fc)
		ctx.ghost = e.selfGhost
		ctx.owner = e.fc
	}
	ctx.params = map[string]bool{}
	for _, p := range e.fn.Params {
		ctx.vars[p.Name()] = TV{e.vals[p], p.Type()}
		ctx.params[p.Name()] = true
	}
	return ctx
}

func (e *Enc) pkgTypes() *types.Package {
	f := e.fn
	for f.Pkg == nil && f.Parent() != nil {
		f = f.Parent()
	}
	if f.Pkg == nil {
		if o := f.Origin(); o != nil && o.Pkg != nil {
			return o.Pkg.Pkg
		}
		return nil
	}
	return f.Pkg.Pkg
}

func (e *Enc) encodeBody() {
	fn := e.fn
	e.entry = e.newBaseHeap("@0")
	e.cur = e.entry.clone()
	e.curR = tTrue
	// parameters
	for _, p := range fn.Params {
		v := e.freshValueNoRange("p$"+p.Name(), p.Type())
		e.vals[p] = v
		e.assumeGlobal(rangeFact(v, p.Type()), "parameter "+p.Name()+" well typed")
		if s, ok := v.(Sc); ok && s.T.Sort == SInt {
			switch p.Type().Underlying().(type) {
			case *types.Pointer, *types.Map:
				e.ptrParams = append(e.ptrParams, s.T)
				e.assumeGlobal(app(SBool, "ref.old", app(SInt, "ref.root", s.T)), "parameter "+p.Name()+" was allocated before the call")
			}
		}
		if sv, ok := v.(SliceV); ok {
			e.assumeGlobal(app(SBool, "ref.old", app(SInt, "ref.root", sv.Base)), "parameter "+p.Name()+" was allocated before the call")
		}
		e.assumeGlobal(e.olderThanNow(v, p.Type()), "parameter "+p.Name()+" older than the allocation clock")
	}
	if fn.Signature.Recv() != nil && len(fn.Params) > 0 {
		if _, isPtr := fn.Params[0].Type().Underlying().(*types.Pointer); isPtr {
			e.assumeGlobal(not(eq(e.vals[fn.Params[0]].(Sc).T, intLit(0))), "receiver non-nil")
			e.assumption("pointer receivers are non-nil on entry")
		}
	}
	for _, fv := range fn.FreeVars {
		v := e.freshValueNoRange("fv$"+fv.Name(), fv.Type())
		e.vals[fv] = v
		if s, ok := v.(Sc); ok {
			e.assumeGlobal(and(not(eq(s.T, intLit(0))), eq(app(SInt, "ref.tag", s.T), intLit(int64(e.tagFor(e.fnLabel+"$fv$"+fv.Name())))), eq(app(SInt, "ref.root", s.T), s.T)), "captured variable cell: a distinct non-nil variable")
			e.ptrParams = append(e.ptrParams, s.T)
		}
	}
	if e.fc != nil {
		e.selfGhost = e.instGhosts(e.fc, "self")
		ctx := e.baseCtx()
		for _, a := range e.fc.Assumes {
			t, err := ctx.EvalBool(a.E)
			if err != nil {
				e.fatal("assume: %v", err)
			}
			e.assumeGlobal(t, "definitional axiom: "+a.Src)
			e.assumption("definitional axiom in contract of " + e.fnLabel + ": " + a.Src)
		}
		for _, r := range e.fc.Requires {
			t, err := ctx.EvalBool(r.E)
			if err != nil {
				e.fatal("requires: %v", err)
			}
			e.assumeGlobal(t, "requires "+r.Src)
		}
		e.items = append(e.items, Item{Kind: itProbe, Text: "true", Name: e.fnLabel + "/vacuity:requires", Desc: "probe"})
		for j, l := range e.fc.Lemmas {
			t, err := ctx.EvalBool(l.E)
			if err != nil {
				e.fatal("lemma: %v", err)
			}
			e.assertOb(fmt.Sprintf("lemma#%d", j+1), t, "lemma "+l.Src, token.NoPos)
		}
	}

	order := e.topoOrder()
	for _, b := range order {
		e.block(b)
	}
}

func (e *Enc) block(b *ssa.BasicBlock) {
	fn := e.fn
	e.curB = b
	var ins []heapParent
	var inEdges []Term
	var inPreds []*ssa.BasicBlock
	if b == fn.Blocks[0] {
		e.curR = tTrue
	} else {
		for _, p := range b.Preds {
			if e.isBackEdge(p, b) {
				continue
			}
			et, ok := e.edges[[2]int{p.Index, b.Index}]
			if !ok {
				continue // predecessor not reachable
			}
			ins = append(ins, heapParent{et, e.hout[p]})
			inEdges = append(inEdges, et)
			inPreds = append(inPreds, p)
		}
		if len(ins) == 0 {
			return
		}
		e.curR = e.define(fmt.Sprintf("reach.b%d", b.Index), or(inEdges...))
		e.cur = joinHeaps(e, ins)
	}
	e.reach[b] = e.curR

	// loop exit assertions: on every edge that leaves a loop (normal exit or break, not a return), with the
	// state at the end of the loop-side block
	for i, p := range inPreds {
		e.assertLoopExits(p, b, inEdges[i], e.hout[p])
	}

	li := e.loops[b]
	if li != nil {
		// establish invariants on each entry edge
		for i, p := range inPreds {
			e.assertInvariants(li, p, inEdges[i], e.hout[p], fmt.Sprintf("init"))
		}
		if b == fn.Blocks[0] {
			e.fatal("loop header is the entry block")
		}
		// ghost counter of entries into this loop: calls("loop#<k>") in specifications
		e.skipWriteFor = li
		e.bumpCallCount(fmt.Sprintf("loop#%d", li.ordinal))
		e.skipWriteFor = nil
		// havoc
		nh := &HeapState{enc: e, m: map[string]Term{}, parents: []heapParent{{tTrue, e.cur}}, epoch: e.cur.epoch}
		if li.writes["*"] {
			nh = e.newBaseHeap(fmt.Sprintf("@L%d", li.ordinal))
			// private families not written by the loop keep their pre-loop content
			nh.privFrom = e.cur
			nh.privExcl = map[string]bool{}
			for name := range li.writes {
				nh.privExcl[name] = true
			}
		} else if len(li.writes) > 0 {
			entryHeap := e.cur
			for name := range li.writes {
				// sort is recovered from the entry heap's knowledge of the family
				sort := e.famSort(name, entryHeap)
				if sort == "" {
					continue
				}
				nh.m[name] = e.declare(fmt.Sprintf("%s@L%d", name, li.ordinal), sort)
			}
			for name := range li.writes {
				if !strings.HasPrefix(name, "L$") {
					nh.epoch = e.freshConst("epoch", SInt)
					break
				}
			}
		}
		preClock := sel(e.cur.get(clockFam, arrSort(SInt, SInt)), intLit(0))
		e.cur = nh
		e.assume(ge(e.clockNow(), preClock), "the allocation clock never goes back")
		for _, in := range b.Instrs {
			p, ok := in.(*ssa.Phi)
			if !ok {
				break
			}
			v := e.freshValueNoRange(p.Name(), p.Type())
			e.vals[p] = v
			e.assume(rangeFact(v, p.Type()), "loop-carried value well typed")
			e.assume(e.olderThanNow(v, p.Type()), "loop-carried reference was allocated in an earlier iteration or before the loop")
		}
		e.assumeInvariants(li)
	} else {
		for _, in := range b.Instrs {
			p, ok := in.(*ssa.Phi)
			if !ok {
				break
			}
			var v Value
			first := true
			// iterate in reverse so that the first edge ends up outermost
			for i := len(inPreds) - 1; i >= 0; i-- {
				pi := predIndex(b, inPreds[i])
				ev := e.val(p.Edges[pi])
				if first {
					v = ev
					first = false
				} else {
					v = iteValue(inEdges[i], ev, v)
				}
			}
			e.setVal(p, v)
		}
	}

	for _, in := range b.Instrs {
		e.instr(in)
	}
	e.hout[b] = e.cur

	// terminator
	last := b.Instrs[len(b.Instrs)-1]
	switch t := last.(type) {
	case *ssa.If:
		c := e.sc(t.Cond)
		e.edge(b, b.Succs[0], and(e.curR, c))
		e.edge(b, b.Succs[1], and(e.curR, not(c)))
	case *ssa.Jump:
		e.edge(b, b.Succs[0], e.curR)
	case *ssa.Return:
		e.ret(t)
	case *ssa.Panic:
		if e.fc == nil || !e.fc.MayPanic {
			e.assertOb(fmt.Sprintf("safe:panic#%d", e.ordinal("panic")), tFalse, "explicit panic reachable", posOf(t))
		}
	}
}

func predIndex(b, p *ssa.BasicBlock) int {
	for i, x := range b.Preds {
		if x == p {
			return i
		}
	}
	panic("predIndex")
}

func (e *Enc) edge(from, to *ssa.BasicBlock, cond Term) {
	name := fmt.Sprintf("edge.b%d.b%d", from.Index, to.Index)
	if _, dup := e.edges[[2]int{from.Index, to.Index}]; dup {
		// both branches of an If lead to the same block
		cond = or(e.edges[[2]int{from.Index, to.Index}], cond)
		name += "x"
	}
	et := e.define(name, cond)
	if e.isBackEdge(from, to) {
		li := e.loops[to]
		e.backOrd[to]++
		e.assertInvariants(li, from, et, e.cur, fmt.Sprintf("keep.e%d", e.backOrd[to]))
		// a back edge of an outer loop may leave an inner loop
		e.assertLoopExits(from, to, et, e.cur)
		if li.lc != nil && len(li.lc.Backs) > 0 {
			saveR, saveH := e.curR, e.cur
			e.curR = et
			ctx := e.baseCtx()
			ctx.heap = e.cur
			ctx.at = from
			ctx.atEnd = true
			ctx.params = map[string]bool{}
			for _, pa := range e.fn.Params {
				ctx.params[pa.Name()] = true
			}
			for j, bc := range li.lc.Backs {
				t, err := ctx.EvalBool(bc.E)
				if err != nil && strings.Contains(err.Error(), "unknown identifier") {
					e.unstatable = append(e.unstatable, fmt.Sprintf("%s: loop %d back clause: %v (in `%s`)", e.fnLabel, li.ordinal, err, bc.Src))
					continue
				}
				if err != nil {
					e.fatal("loop %d back: %v", li.ordinal, err)
				}
				e.assertOb(fmt.Sprintf("loop%d/back.e%d#%d", li.ordinal, e.backOrd[to], j+1), t, "before another iteration: "+bc.Src, token.NoPos)
			}
			e.curR, e.cur = saveR, saveH
		}
		return
	}
	e.edges[[2]int{from.Index, to.Index}] = et
}

// famSort finds the sort of a heap family from its name.
func (e *Enc) famSort(name string, h *HeapState) string {
	if t, ok := e.famSorts[name]; ok {
		return t
	}
	return ""
}

// invariant handling --------------------------------------------------------

func (e *Enc) loopCtx(li *loopInfo, heap *HeapState, phiSub map[ssa.Value]Value) *SpecCtx {
	ctx := e.baseCtx()
	ctx.heap = heap
	ctx.at = li.header
	ctx.phiSub = phiSub
	return ctx
}

// autoInvariants derives range-loop bounds:  -1 <= idx < n.
func (e *Enc) autoInvariants(li *loopInfo, sub map[ssa.Value]Value) []Term {
	var out []Term
	h := li.header
	var idxPhi *ssa.Phi
	for _, in := range h.Instrs {
		if p, ok := in.(*ssa.Phi); ok && p.Comment == "rangeindex" {
			idxPhi = p
		}
	}
	if idxPhi == nil {
		return nil
	}
	// pattern: t = phi + 1 ; c = t < n ; if c
	var n ssa.Value
	for _, in := range h.Instrs {
		if bo, ok := in.(*ssa.BinOp); ok && bo.Op == token.LSS {
			if inc, ok := bo.X.(*ssa.BinOp); ok && inc.Op == token.ADD && inc.X == idxPhi {
				n = bo.Y
			}
		}
	}
	if n == nil {
		return nil
	}
	if ni, ok := n.(ssa.Instruction); ok && li.body[ni.Block()] {
		return nil
	}
	var pv Term
	if s, ok := sub[idxPhi]; ok {
		pv = s.(Sc).T
	} else {
		pv = e.val(idxPhi).(Sc).T
	}
	nv := e.sc(n)
	out = append(out, and(le(intLit(-1), pv), lt(pv, nv)))
	return out
}

func (e *Enc) assertInvariants(li *loopInfo, from *ssa.BasicBlock, edgeCond Term, heap *HeapState, kind string) {
	sub := map[ssa.Value]Value{}
	pi := predIndex(li.header, from)
	for _, in := range li.header.Instrs {
		p, ok := in.(*ssa.Phi)
		if !ok {
			break
		}
		sub[p] = e.val(p.Edges[pi])
	}
	saveR, saveH := e.curR, e.cur
	e.curR = edgeCond
	e.cur = heap
	for j, t := range e.autoInvariants(li, sub) {
		e.assertOb(fmt.Sprintf("loop%d/%s/auto#%d", li.ordinal, kind, j+1), t, "range index bounds", token.NoPos)
	}
	if e.fc != nil && !e.fc.ModAll && !e.fc.TrustFrame && !e.discovery && !li.writes["*"] {
		for _, g := range e.frameGoals(heap, sortedKeys(li.writes)) {
			e.assertOb(fmt.Sprintf("loop%d/%s/frame:%s", li.ordinal, kind, shortFam(g.name)), g.goal, "loop respects the function frame for "+g.name, token.NoPos)
		}
	}
	if li.lc != nil {
		ctx := e.loopCtx(li, heap, sub)
		for j, inv := range li.lc.Invariants {
			t, err := ctx.EvalBool(inv.E)
			if err != nil {
				if strings.Contains(err.Error(), "unknown identifier") {
					e.note(fmt.Sprintf("loop %d invariant #%d dropped (not assumed, not asserted): %v", li.ordinal, j+1, err))
					continue
				}
				e.fatal("loop %d invariant: %v", li.ordinal, err)
			}
			e.assertOb(fmt.Sprintf("loop%d/%s#%d", li.ordinal, kind, j+1), t, "invariant "+inv.Src, token.NoPos)
		}
		if kind == "init" {
			for j, en := range li.lc.Entries {
				t, err := ctx.EvalBool(en.E)
				if err != nil {
					e.fatal("loop %d entry: %v", li.ordinal, err)
				}
				e.assertOb(fmt.Sprintf("loop%d/entry.b%d#%d", li.ordinal, from.Index, j+1), t, "at loop entry: "+en.Src, token.NoPos)
			}
		}
	}
	e.curR, e.cur = saveR, saveH
}

func (e *Enc) assumeInvariants(li *loopInfo) {
	for _, t := range e.autoInvariants(li, nil) {
		e.assume(t, "range index bounds")
	}
	if e.fc != nil && !e.fc.ModAll && !e.fc.TrustFrame && !e.discovery && !li.writes["*"] {
		for _, g := range e.frameGoals(e.cur, sortedKeys(li.writes)) {
			e.assume(g.goal, "loop respects the function frame for "+g.name)
		}
	}
	if li.lc != nil {
		ctx := e.loopCtx(li, e.cur, nil)
		for _, inv := range li.lc.Invariants {
			t, err := ctx.EvalBool(inv.E)
			if err != nil {
				if strings.Contains(err.Error(), "unknown identifier") {
					continue
				}
				e.fatal("loop %d invariant: %v", li.ordinal, err)
			}
			e.assume(t, "invariant "+inv.Src)
		}
	}
	e.items = append(e.items, Item{Kind: itProbe, Text: e.curR.S, Name: fmt.Sprintf("%s/vacuity:loop%d", e.fnLabel, li.ordinal), Desc: "probe"})
}

// return ---------------------------------------------------------------------

func (e *Enc) ret(r *ssa.Return) {
	e.retOrd++
	if e.fc == nil {
		return
	}
	e.frameCheck(r)
	if len(e.fc.Ensures) == 0 && len(e.fc.AtReturns) == 0 {
		return
	}
	ctx := e.baseCtx()
	ctx.heap = e.cur
	sig := e.fn.Signature
	names := resultNames(sig)
	for i, n := range names {
		ctx.vars[n] = TV{e.val(r.Results[i]), sig.Results().At(i).Type()}
		ctx.vars[fmt.Sprintf("result%d", i)] = ctx.vars[n]
	}
	if len(names) == 1 {
		ctx.vars["result"] = ctx.vars[names[0]]
	}
	e.atReturnClauses(r, false, ctx)
	for j, en := range e.fc.Ensures {
		t, err := ctx.EvalBool(en.E)
		if err != nil {
			e.fatal("ensures: %v", err)
		}
		e.assertOb(fmt.Sprintf("post#%d@ret%d", j+1, e.retOrd), t, "ensures "+en.Src, posOf(r))
	}
}

// Query generation ------------------------------------------------------------

// QueryFor builds the SMT-LIB text for obligation/probe item i.
func (e *Enc) QueryFor(i int) string {
	var sb strings.Builder
	sb.WriteString(preamble)
	for _, d := range e.decls {
		sb.WriteString(d)
		sb.WriteString("\n")
	}
	for _, a := range e.axioms {
		sb.WriteString(a)
		sb.WriteString("\n")
	}
	for j := 0; j < i; j++ {
		it := e.items[j]
		switch it.Kind {
		case itDefine:
			sb.WriteString(it.Text)
		case itProbe:
			continue
		case itAssume, itAssert:
			if it.Text == "true" || it.Term {
				continue
			}
			sb.WriteString("(assert ")
			sb.WriteString(it.Text)
			sb.WriteString(")")
		}
		sb.WriteString("\n")
	}
	it := e.items[i]
	if it.Kind == itAssert {
		sb.WriteString("(assert (not ")
		sb.WriteString(it.Text)
		sb.WriteString("))\n")
	} else {
		sb.WriteString("(assert ")
		sb.WriteString(it.Text)
		sb.WriteString(")\n")
	}
	sb.WriteString("(check-sat)\n")
	return sb.String()
}

// Frame checking ------------------------------------------------------------

type frameItem struct {
	fam string
	all bool
	key func(r Term) Term
}

func (e *Enc) locFrameItems(l Loc) []frameItem {
	var out []frameItem
	ref := l.Ref
	switch l.Kind {
	case locCell:
		if shapeKindOf(l.Typ) == kSlice {
			for _, sfx := range []string{"#base", "#off", "#len", "#cap"} {
				out = append(out, frameItem{fam: l.Fam + sfx, key: func(r Term) Term { return eq(r, ref) }})
			}
		} else {
			out = append(out, frameItem{fam: l.Fam, key: func(r Term) Term { return eq(r, ref) }})
		}
	case locInst:
		switch u := l.Typ.Underlying().(type) {
		case *types.Struct:
			for i := 0; i < u.NumFields(); i++ {
				out = append(out, e.locFrameItems(e.fieldLoc(l.Ref, l.Typ, i))...)
			}
		case *types.Array:
			for _, f := range e.elemFams(u.Elem()) {
				out = append(out, frameItem{fam: f.name, key: func(r Term) Term { return eq(r, eref(ref, app(SInt, "eref.idx", r))) }})
			}
		}
	}
	return out
}

func (e *Enc) frameItems(ctx *SpecCtx, m Expr) (items []frameItem) {
	defer func() {
		if r := recover(); r != nil {
			if se, ok := r.(specError); ok {
				e.fatal("modifies %s: %s", m.String(), se.msg)
			}
			panic(r)
		}
	}()
	switch x := m.(type) {
	case *EIdent:
		tv := ctx.eval(x)
		if pt, ok := tv.T.Underlying().(*types.Pointer); ok {
			return e.locFrameItems(locOfRef(tv.V.(Sc).T, pt.Elem()))
		}
		ctx.fail("modifies: %s is not an addressable global", x.Name)
	case *ESel:
		base := ctx.eval(x.X)
		if gl, ok := ctx.ghostFieldLoc(base, x.F); ok {
			return e.locFrameItems(gl)
		}
		pt, ok := base.T.Underlying().(*types.Pointer)
		if !ok {
			ctx.fail("modifies: %s is not a pointer", x.X)
		}
		obj, index := lookupFieldAnyPkg(pt.Elem(), x.F)
		if obj == nil {
			ctx.fail("modifies: no field %s", x.F)
		}
		ref := base.V.(Sc).T
		t := pt.Elem()
		var l Loc
		for _, idx := range index {
			l = e.fieldLoc(ref, t, idx)
			ref = l.Ref
			t = l.Typ
		}
		return e.locFrameItems(l)
	case *EIndex:
		base := ctx.eval(x.X)
		switch t := base.T.Underlying().(type) {
		case *types.Slice:
			sv := base.V.(SliceV)
			i := ctx.asInt(ctx.eval(x.I))
			return e.locFrameItems(sliceElemLoc(sv, i, t.Elem()))
		case *types.Map:
			mi := e.mapInfoOf(base.T)
			if !mi.ok {
				return []frameItem{{all: true}}
			}
			mref := base.V.(Sc).T
			for _, hn := range e.mapHeapNames(mi) {
				items = append(items, frameItem{fam: hn.name, key: func(r Term) Term { return eq(r, mref) }})
			}
			return items
		}
	case *ECall:
		id, _ := x.Fn.(*EIdent)
		if id == nil {
			ctx.fail("modifies: unsupported form")
		}
		switch id.Name {
		case "elems":
			base := ctx.eval(x.Args[0])
			sv := base.V.(SliceV)
			st := base.T.Underlying().(*types.Slice)
			for _, f := range e.elemFams(st.Elem()) {
				items = append(items, frameItem{fam: f.name, key: func(r Term) Term { return eq(r, eref(sv.Base, app(SInt, "eref.idx", r))) }})
			}
			return items
		case "mapof":
			base := ctx.eval(x.Args[0])
			mi := e.mapInfoOf(base.T)
			if !mi.ok {
				return []frameItem{{all: true}}
			}
			mref := base.V.(Sc).T
			for _, hn := range e.mapHeapNames(mi) {
				items = append(items, frameItem{fam: hn.name, key: func(r Term) Term { return eq(r, mref) }})
			}
			return items
		case "deref":
			base := ctx.eval(x.Args[0])
			pt := base.T.Underlying().(*types.Pointer)
			return e.locFrameItems(locOfRef(base.V.(Sc).T, pt.Elem()))
		case "allof":
			fams := e.allofFams(ctx, x)
			for _, f := range fams {
				items = append(items, frameItem{fam: f, key: func(r Term) Term { return tTrue }})
			}
			return items
		}
	}
	ctx.fail("modifies: unsupported location expression")
	return nil
}

// frameGoals: for every shared heap family in `names`, the formula stating that heap `h` agrees with
// the entry heap outside the locations of the modifies clauses; objects allocated during the call
// (not ref.old) are exempt.
func (e *Enc) frameGoals(h *HeapState, names []string) []struct {
	name string
	goal Term
} {
	ctx := e.baseCtx()
	ctx.heap = e.entry
	var items []frameItem
	for _, m := range e.fc.Modifies {
		items = append(items, e.frameItems(ctx, m)...)
	}
	rv := Term{"fr!", SInt}
	var out []struct {
		name string
		goal Term
	}
	for _, n := range names {
		if strings.HasPrefix(n, "L$") || n == "*" {
			continue
		}
		srt := e.famSorts[n]
		if srt == "" {
			continue
		}
		cur := h.get(n, srt)
		ent := e.entry.get(n, srt)
		if cur.S == ent.S {
			continue
		}
		var allowed []Term
		for _, it := range items {
			if it.all {
				allowed = append(allowed, tTrue)
			} else if it.fam == n {
				allowed = append(allowed, it.key(rv))
			}
		}
		goal := mk(SBool, "(forall ((fr! Int)) (! (=> (and (ref.old (ref.root fr!)) (not %s)) (= (select %s fr!) (select %s fr!))) :pattern ((select %s fr!))))", or(allowed...).S, cur.S, ent.S, cur.S)
		out = append(out, struct {
			name string
			goal Term
		}{n, goal})
	}
	return out
}

func (e *Enc) frameCheck(r *ssa.Return) {
	if e.discovery || e.fc.ModAll {
		return
	}
	if e.fc.TrustFrame {
		e.assumption("the modifies clause of " + e.fnLabel + " is trusted, not checked against its body (trustframe)")
		return
	}
	if e.allWrites["*"] {
		e.assertOb(fmt.Sprintf("frame:all@ret%d", e.retOrd), tFalse, "a callee without contract may modify any memory, but the contract does not say `modifies *`", posOf(r))
		return
	}
	var names []string
	for n := range e.allWrites {
		names = append(names, n)
	}
	sort.Strings(names)
	for _, g := range e.frameGoals(e.cur, names) {
		e.assertOb(fmt.Sprintf("frame:%s@ret%d", shortFam(g.name), e.retOrd), g.goal, "frame: "+g.name+" unchanged outside the modifies clause", posOf(r))
	}
}

func shortFam(n string) string {
	if i := strings.LastIndex(n, "~"); i >= 0 {
		return n[i+1:]
	}
	return n
}

func sortedKeys(m map[string]bool) []string {
	var out []string
	for k := range m {
		out = append(out, k)
	}
	sort.Strings(out)
	return out
}

// returnOrdinal: 1-based position of a return instruction among the function's returns in source order
// (synthetic returns without a position come last).
func (e *Enc) returnOrdinal(r *ssa.Return) int {
	if e.retOrder == nil {
		var rs []*ssa.Return
		for _, b := range e.fn.Blocks {
			for _, in := range b.Instrs {
				if x, ok := in.(*ssa.Return); ok {
					rs = append(rs, x)
				}
			}
		}
		sort.SliceStable(rs, func(i, j int) bool {
			pi, pj := rs[i].Pos(), rs[j].Pos()
			if pi.IsValid() != pj.IsValid() {
				return pi.IsValid()
			}
			return pi < pj
		})
		e.retOrder = map[*ssa.Return]int{}
		for i, x := range rs {
			e.retOrder[x] = i + 1
		}
	}
	return e.retOrder[r]
}

// assertLoopExits checks the exit clauses of every loop that the edge p -> b leaves (normal exit or break,
// not a return), with the state at the end of the loop-side block.
func (e *Enc) assertLoopExits(p, b *ssa.BasicBlock, edge Term, heap *HeapState) {
	for _, xl := range e.loopList {
		if xl.lc == nil || len(xl.lc.Exits) == 0 {
			continue
		}
		// the loop's region: its CFG body plus the code written inside the loop statement that never loops
		// back (the way to a return, a panic or a break); an edge that leaves the region is an exit, a path
		// that ends inside it is a return
		reg := e.loopRegion(xl)
		if !reg[p] || reg[b] {
			continue
		}
		saveR, saveH := e.curR, e.cur
		e.curR, e.cur = edge, heap
		ctx := e.baseCtx()
		ctx.heap = heap
		ctx.at = p
		ctx.atEnd = true
		ctx.params = map[string]bool{}
		for _, pa := range e.fn.Params {
			ctx.params[pa.Name()] = true
		}
		for j, ex := range xl.lc.Exits {
			t, err := ctx.EvalBool(ex.E)
			if err != nil {
				e.fatal("loop %d exit: %v", xl.ordinal, err)
			}
			e.assertOb(fmt.Sprintf("loop%d/exit.b%d#%d", xl.ordinal, p.Index, j+1), t, "at loop exit: "+ex.Src, token.NoPos)
		}
		e.curR, e.cur = saveR, saveH
	}
}

// loopSyntax finds the loop statement of a CFG loop: the innermost for/range statement of the function
// whose source range contains every positioned instruction of the loop's blocks.
func (e *Enc) loopSyntax(li *loopInfo) ast.Node {
	if li.synDone {
		return li.syn
	}
	li.synDone = true
	root := e.fn.Syntax()
	if root == nil {
		return nil
	}
	var lo, hi token.Pos
	for b := range li.body {
		for _, in := range b.Instrs {
			if _, isPhi := in.(*ssa.Phi); isPhi {
				continue
			}
			p := in.Pos()
			if !p.IsValid() {
				continue
			}
			if !lo.IsValid() || p < lo {
				lo = p
			}
			if p > hi {
				hi = p
			}
		}
	}
	if !lo.IsValid() {
		return nil
	}
	var best ast.Node
	ast.Inspect(root, func(n ast.Node) bool {
		if n == nil {
			return false
		}
		if fl, ok := n.(*ast.FuncLit); ok && ast.Node(fl) != root {
			return false
		}
		switch n.(type) {
		case *ast.ForStmt, *ast.RangeStmt:
			if n.Pos() <= lo && hi < n.End() {
				best = n // inner loops are visited later and overwrite
			}
		}
		return true
	})
	li.syn = best
	return best
}

// insideLoopText: block b (outside the CFG loop) holds code written inside the loop statement.
func (e *Enc) insideLoopText(li *loopInfo, b *ssa.BasicBlock) bool {
	syn := e.loopSyntax(li)
	if syn == nil {
		return false
	}
	for _, in := range b.Instrs {
		if _, isPhi := in.(*ssa.Phi); isPhi {
			continue
		}
		if p := in.Pos(); p.IsValid() {
			return syn.Pos() <= p && p < syn.End()
		}
	}
	return false
}

func (e *Enc) loopRegion(li *loopInfo) map[*ssa.BasicBlock]bool {
	if li.region != nil {
		return li.region
	}
	reg := map[*ssa.BasicBlock]bool{}
	var work []*ssa.BasicBlock
	for b := range li.body {
		reg[b] = true
		work = append(work, b)
	}
	for len(work) > 0 {
		x := work[len(work)-1]
		work = work[:len(work)-1]
		for _, s := range x.Succs {
			if !reg[s] && e.insideLoopText(li, s) {
				reg[s] = true
				work = append(work, s)
			}
		}
	}
	li.region = reg
	return reg
}

// atReturnClauses checks the `at return k` assertions of return statement r: the plain ones at the return
// itself (ctx carries the result names), the before-defers ones where the deferred calls are about to run.
func (e *Enc) atReturnClauses(r *ssa.Return, pre bool, ctx *SpecCtx) {
	if len(e.fc.AtReturns) == 0 {
		return
	}
	if ctx == nil {
		ctx = e.baseCtx()
		ctx.heap = e.cur
	}
	k := e.returnOrdinal(r)
	for i := range e.fc.AtReturns {
		ar := &e.fc.AtReturns[i]
		if ar.Ord != k || ar.Pre != pre {
			continue
		}
		ar.Used = true
		lc := ctx.child()
		lc.at = r.Block()
		lc.atEnd = !pre
		lc.params = map[string]bool{}
		for _, p := range e.fn.Params {
			lc.params[p.Name()] = true
		}
		t, err := lc.EvalBool(ar.C.E)
		if err != nil && strings.Contains(err.Error(), "unknown identifier") {
			e.unstatable = append(e.unstatable, fmt.Sprintf("%s: at return %d: %v (in `%s`)", e.fnLabel, k, err, ar.C.Src))
			continue
		}
		if err != nil {
			e.fatal("at return %d: %v", k, err)
		}
		e.assertOb(fmt.Sprintf("at@return#%d.%d", k, i+1), t, fmt.Sprintf("assertion at return %d: %s", k, ar.C.Src), posOf(r))
	}
}

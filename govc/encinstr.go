package main

import (
	"fmt"
	"go/constant"
	"go/token"
	"go/types"
	"strings"

	"golang.org/x/tools/go/ssa"
)

// val returns the symbolic value of an SSA operand.
func (e *Enc) val(v ssa.Value) Value {
	if x, ok := e.vals[v]; ok {
		return x
	}
	switch c := v.(type) {
	case *ssa.Const:
		return e.constVal(c)
	case *ssa.Global:
		name := "g$" + sanitize(c.Pkg.Pkg.Path()+"."+c.Name())
		if !e.declSet[name] {
			e.declare(name, SInt)
			e.axiom(fmt.Sprintf("(and (not (= %s 0)) (= (ref.tag %s) %d))", smtSym(name), smtSym(name), e.tagFor(name)))
		}
		r := Sc{Term{smtSym(name), SInt}}
		e.vals[v] = r
		return r
	case *ssa.Function:
		name := "fn$" + sanitize(c.String())
		t := e.declare(name, SInt)
		if !e.declSet[name+"!nz"] {
			e.declSet[name+"!nz"] = true
			e.axiom(fmt.Sprintf("(not (= %s 0))", t.S))
		}
		return Sc{t}
	case *ssa.Builtin:
		return Sc{intLit(0)}
	case *ssa.FieldAddr:
		if l, ok := e.locs[c]; ok && l.Kind == locCell {
			pt := c.X.Type().Underlying().(*types.Pointer)
			fr := e.frefName(pt.Elem(), pt.Elem().Underlying().(*types.Struct).Field(c.Field).Name())
			r := Sc{app(SInt, smtSym(fr), l.Ref)}
			e.vals[v] = r
			return r
		}
	}
	// value defined in a block not yet processed (unreachable / recover) -> fresh
	e.note(fmt.Sprintf("use of undefined SSA value %s (%T)", v.Name(), v))
	x := e.freshValue("undef", v.Type())
	e.vals[v] = x
	return x
}

func (e *Enc) constVal(c *ssa.Const) Value {
	t := c.Type()
	if c.Value == nil {
		return zeroValue(t)
	}
	if c.Value.Kind() == constant.String {
		return Sc{e.strLit(constant.StringVal(c.Value))}
	}
	if tm, ok := constToTerm(c.Value, t); ok {
		return Sc{tm}
	}
	e.note("unsupported constant " + c.String())
	return e.freshValue("const", t)
}

func (e *Enc) setVal(v ssa.Value, x Value) {
	e.vals[v] = e.defineValue(v.Name(), x)
}

func (e *Enc) sc(v ssa.Value) Term {
	x := e.val(v)
	s, ok := x.(Sc)
	if !ok {
		panic(fmt.Sprintf("scalar expected for %s: %s (%T) in %s", v.Name(), v.Type(), x, e.fn))
	}
	return s.T
}

// ptrLoc gives the location an SSA pointer value designates.
func (e *Enc) ptrLoc(p ssa.Value) Loc {
	if l, ok := e.locs[p]; ok {
		return l
	}
	pt, ok := p.Type().Underlying().(*types.Pointer)
	if !ok {
		panic("ptrLoc: not a pointer: " + p.Type().String())
	}
	return locOfRef(e.sc(p), pt.Elem())
}

func posOf(in ssa.Instruction) token.Pos {
	if p := in.Pos(); p.IsValid() {
		return p
	}
	// fall back to any operand position
	for _, op := range in.Operands(nil) {
		if *op != nil && (*op).Pos().IsValid() {
			return (*op).Pos()
		}
	}
	return token.NoPos
}

func (e *Enc) nilCheck(ref Term, in ssa.Instruction, what string) {
	if e.fc != nil && e.fc.NoNilCheck {
		e.assume(not(eq(ref, intLit(0))), "nil check assumed: "+what)
		e.assumption("nil dereferences in " + e.fnLabel + " are assumed away (nonilcheck)")
		return
	}
	if ref.S == "0" {
		e.assertOb(fmt.Sprintf("safe:nil#%d", e.ordinal("nil")), tFalse, "nil dereference: "+what, posOf(in))
		return
	}
	// globals, allocs and frefs are non-nil by construction; skip trivial ones
	if strings.HasPrefix(ref.S, "g$") || strings.HasPrefix(ref.S, "alloc!") || strings.HasPrefix(ref.S, "(fref$") || strings.HasPrefix(ref.S, "(|fref$") || strings.HasPrefix(ref.S, "(eref ") {
		return
	}
	e.assertOb(fmt.Sprintf("safe:nil#%d", e.ordinal("nil")), not(eq(ref, intLit(0))), "nil dereference: "+what, posOf(in))
}

func (e *Enc) boundsCheck(idx, n Term, in ssa.Instruction, what string) {
	if ci, ok := constInt(idx); ok {
		if cn, ok2 := constInt(n); ok2 && ci.Sign() >= 0 && ci.Cmp(cn) < 0 {
			return
		}
	}
	e.assertOb(fmt.Sprintf("safe:index#%d", e.ordinal("index")), and(le(intLit(0), idx), lt(idx, n)), "index out of range: "+what, posOf(in))
}

func (e *Enc) instr(in ssa.Instruction) {
	switch x := in.(type) {
	case *ssa.DebugRef:
		return
	case *ssa.Phi:
		return // handled at block entry
	case *ssa.Alloc:
		e.alloc(x)
	case *ssa.BinOp:
		if x.Op == token.QUO || x.Op == token.REM {
			if _, _, isInt := intWidth(x.Type()); isInt {
				d := e.sc(x.Y)
				if c, ok := constInt(d); !ok || c.Sign() == 0 {
					e.assertOb(fmt.Sprintf("safe:div#%d", e.ordinal("div")), not(eq(d, intLit(0))), "division by zero", posOf(x))
				}
			}
		}
		if x.Op == token.SHL || x.Op == token.SHR {
			if _, signed, isInt := intWidth(x.Y.Type()); isInt && signed {
				if _, ok := constInt(e.sc(x.Y)); !ok {
					e.assertOb(fmt.Sprintf("safe:shift#%d", e.ordinal("shift")), ge(e.sc(x.Y), intLit(0)), "negative shift count", posOf(x))
				}
			}
		}
		e.setVal(x, e.binop(x.Op, e.val(x.X), e.val(x.Y), x.X.Type(), x.Y.Type(), x.Type()))
	case *ssa.UnOp:
		e.unop(x)
	case *ssa.ChangeType:
		e.vals[x] = e.val(x.X)
		if l, ok := e.locs[x.X]; ok {
			e.locs[x] = l
		}
	case *ssa.ChangeInterface:
		e.vals[x] = e.val(x.X)
	case *ssa.Convert:
		e.convert(x)
	case *ssa.MultiConvert:
		e.note("MultiConvert")
		e.setVal(x, e.freshValue(x.Name(), x.Type()))
	case *ssa.MakeInterface:
		e.makeInterface(x)
	case *ssa.TypeAssert:
		e.typeAssert(x)
	case *ssa.Extract:
		tv, ok := e.val(x.Tuple).(TupleV)
		if !ok {
			panic("extract from non-tuple")
		}
		e.vals[x] = tv.E[x.Index]
	case *ssa.Field:
		sv, ok := e.val(x.X).(StructV)
		if !ok {
			e.note("Field on non-struct value")
			e.setVal(x, e.freshValue(x.Name(), x.Type()))
			return
		}
		e.vals[x] = sv.F[x.Field]
	case *ssa.FieldAddr:
		pt := x.X.Type().Underlying().(*types.Pointer)
		base := e.ptrLoc(x.X)
		e.nilCheck(base.Ref, x, "field "+pt.Elem().Underlying().(*types.Struct).Field(x.Field).Name())
		l := e.fieldLoc(base.Ref, pt.Elem(), x.Field)
		l.Priv = base.Priv
		e.locs[x] = l
		if l.Kind == locInst {
			e.vals[x] = Sc{l.Ref}
		}
		// pointers to scalar field cells get their symbolic address lazily (see val)
	case *ssa.Index:
		e.index(x)
	case *ssa.IndexAddr:
		e.indexAddr(x)
	case *ssa.Lookup:
		e.lookup(x)
	case *ssa.Slice:
		e.slice(x)
	case *ssa.MakeSlice:
		e.makeSlice(x)
	case *ssa.MakeMap:
		e.makeMap(x)
	case *ssa.MapUpdate:
		e.mapUpdate(x)
	case *ssa.Store:
		l := e.ptrLoc(x.Addr)
		e.nilCheck(l.Ref, x, "store")
		e.store(e.cur, l, e.val(x.Val))
	case *ssa.Call:
		r := e.call(x, &x.Call, x.Type())
		e.setVal(x, r)
		if _, isBuiltin := x.Call.Value.(*ssa.Builtin); !isBuiltin && e.fc != nil && len(e.fc.AtCalls) > 0 {
			var args []Value
			var ats []types.Type
			if x.Call.IsInvoke() {
				args = append(args, e.val(x.Call.Value))
				ats = append(ats, x.Call.Value.Type())
			}
			for _, a := range x.Call.Args {
				args = append(args, e.val(a))
				ats = append(ats, a.Type())
			}
			e.atCallAssertsPhase(x, callKeyOf(&x.Call), args, ats, true, e.vals[x], x.Type())
		}
	case *ssa.Defer:
		e.defers = append(e.defers, x)
	case *ssa.RunDefers:
		e.runDefers(x)
	case *ssa.Go:
		e.note("go statement: goroutine body not modelled; started function's effects ignored")
		e.assumption("goroutines started by " + e.fnLabel + " are not modelled")
	case *ssa.MakeClosure:
		t := e.freshConst("closure", SInt)
		e.assume(not(eq(t, intLit(0))), "closure non-nil")
		e.vals[x] = Sc{t}
		if e.closureOf == nil {
			e.closureOf = map[string]*ssa.MakeClosure{}
		}
		e.closureOf[t.S] = x
	case *ssa.MakeChan:
		t := e.freshConst("chan", SInt)
		e.assume(not(eq(t, intLit(0))), "chan non-nil")
		e.vals[x] = Sc{t}
	case *ssa.Send:
		e.note("channel send treated as no-op")
	case *ssa.Select:
		e.note("select: outcome nondeterministic")
		e.setVal(x, e.freshValue(x.Name(), x.Type()))
	case *ssa.Range:
		e.rangeInstr(x)
	case *ssa.Next:
		e.next(x)
	case *ssa.SliceToArrayPointer:
		sv := e.val(x.X).(SliceV)
		// pointer to the backing array viewed from offset Off: representable only when Off == 0
		e.note("SliceToArrayPointer assumes zero offset")
		e.vals[x] = Sc{sv.Base}
	case *ssa.Panic, *ssa.Return, *ssa.If, *ssa.Jump:
		// terminators handled by the block driver
	default:
		e.note(fmt.Sprintf("unsupported instruction %T", in))
		if v, ok := in.(ssa.Value); ok {
			e.setVal(v, e.freshValue(v.Name(), v.Type()))
		}
		e.cur.havocAll()
	}
}

func (e *Enc) alloc(x *ssa.Alloc) {
	pt := x.Type().Underlying().(*types.Pointer)
	name := fmt.Sprintf("alloc!%s", x.Name())
	if e.declSet[name] {
		name = fmt.Sprintf("alloc!%s!%d", x.Name(), e.nextID())
	}
	r := e.declare(name, SInt)
	e.allocs = append(e.allocs, r)
	e.assumeGlobal(and(not(eq(r, intLit(0))), eq(app(SInt, "ref.tag", r), intLit(int64(e.tagFor(e.fnLabel+name)))), eq(app(SInt, "ref.root", r), r), not(app(SBool, "ref.old", r))), "fresh allocation")
	e.assume(e.stampAlloc(r), "allocation time stamp")
	for _, p := range e.ptrParams {
		e.assumeGlobal(not(eq(r, p)), "fresh allocation differs from parameters")
	}
	e.vals[x] = Sc{r}
	l := locOfRef(r, pt.Elem())
	if !allocEscapes(x) {
		l.Priv = "L$" + x.Name() + "$"
	}
	e.locs[x] = l
	e.zeroAt(l)
}

// allocEscapes: conservative check whether the address of an allocation can be observed
// outside direct loads/stores/field/index address computations of this function.
func allocEscapes(a *ssa.Alloc) bool {
	if a.Heap {
		// heap allocation decided by the builder means the address escapes syntactically
	}
	var walk func(v ssa.Value) bool
	seen := map[ssa.Value]bool{}
	walk = func(v ssa.Value) bool {
		if seen[v] {
			return false
		}
		seen[v] = true
		refs := v.Referrers()
		if refs == nil {
			return true
		}
		for _, r := range *refs {
			switch x := r.(type) {
			case *ssa.DebugRef:
			case *ssa.Store:
				if x.Val == v {
					return true
				}
			case *ssa.UnOp:
				if x.Op != token.MUL {
					return true
				}
			case *ssa.FieldAddr:
				if walk(x) {
					return true
				}
			case *ssa.IndexAddr:
				if x.X != v || walk(x) {
					return true
				}
			default:
				return true
			}
		}
		return false
	}
	return walk(a)
}

// zeroAt initialises the memory at l to the zero value.
func (e *Enc) zeroAt(l Loc) {
	if a, ok := l.Typ.Underlying().(*types.Array); ok && !isOpaque(l.Typ) && a.Len() > 64 {
		if shapeKindOf(a.Elem()) == kScalar {
			es := scalarSort(a.Elem())
			fam := l.Priv + cellFam(a.Elem())
			hm := e.cur.get(fam, arrSort(SInt, es))
			e.assume(mk(SBool, "(forall ((qi! Int)) (! (= (select %s (eref %s qi!)) %s) :pattern ((select %s (eref %s qi!)))))", hm.S, l.Ref.S, zeroOfSort(es).S, hm.S, l.Ref.S), "fresh array is zeroed")
			return
		}
		e.note("large array of composite elements: zero-initialisation not modelled")
		return
	}
	if shapeKindOf(l.Typ) == kArrayOfComposite {
		a := l.Typ.Underlying().(*types.Array)
		if a.Len() <= 16 {
			for i := int64(0); i < a.Len(); i++ {
				e.zeroAt(elemLocOf(l, intLit(i), a.Elem()))
			}
			return
		}
		e.note("array of composite elements: zero-initialisation not modelled")
		return
	}
	e.store(e.cur, l, zeroValue(l.Typ))
}

func (e *Enc) unop(x *ssa.UnOp) {
	switch x.Op {
	case token.NOT:
		e.setVal(x, Sc{not(e.sc(x.X))})
	case token.SUB:
		if _, _, ok := intWidth(x.Type()); ok {
			e.setVal(x, Sc{wrapOnce(sub(intLit(0), e.sc(x.X)), x.Type())})
		} else {
			e.setVal(x, Sc{app(SReal, "-", e.sc(x.X))})
		}
	case token.XOR:
		w, signed, _ := intWidth(x.Type())
		if signed {
			e.setVal(x, Sc{sub(sub(intLit(0), e.sc(x.X)), intLit(1))})
		} else {
			e.setVal(x, Sc{sub(bigLit(pow2(w)), add(e.sc(x.X), intLit(1)))})
		}
	case token.MUL:
		if g, ok := x.X.(*ssa.Global); ok {
			if t, isS := e.sentinelConst(g); isS {
				// error sentinels are constants: their value does not depend on the heap
				e.vals[x] = Sc{t}
				break
			}
		}
		l := e.ptrLoc(x.X)
		e.nilCheck(l.Ref, x, "load")
		v := e.load(e.cur, l)
		v = e.defineValue(x.Name(), v)
		e.vals[x] = v
		e.assume(rangeFact(v, x.Type()), "loaded value is well typed")
		e.assume(e.olderThanNow(v, x.Type()), "a loaded reference designates memory allocated earlier")
		if g, ok := x.X.(*ssa.Global); ok && x.Type().String() == "error" && (strings.HasPrefix(g.Name(), "Err") || g.Name() == "EOF") {
			e.assume(not(eq(v.(Sc).T, intLit(0))), "error sentinel "+g.Name()+" is non-nil")
			e.assumption("package-level error sentinels (Err*, EOF) are non-nil and never reassigned")
		}
	case token.ARROW:
		e.note("channel receive: value nondeterministic")
		e.setVal(x, e.freshValue(x.Name(), x.Type()))
	default:
		e.note("unsupported unop " + x.Op.String())
		e.setVal(x, e.freshValue(x.Name(), x.Type()))
	}
}

func (e *Enc) convert(x *ssa.Convert) {
	from, to := x.X.Type(), x.Type()
	fb, _ := from.Underlying().(*types.Basic)
	tb, _ := to.Underlying().(*types.Basic)
	switch {
	case fb != nil && tb != nil && fb.Info()&types.IsInteger != 0 && tb.Info()&types.IsInteger != 0:
		v := e.sc(x.X)
		flo, fhi, _ := intRange(from)
		tlo, thi, ok := intRange(to)
		if ok && flo != nil && flo.Cmp(tlo) >= 0 && fhi.Cmp(thi) <= 0 {
			e.vals[x] = Sc{v}
			return
		}
		e.setVal(x, Sc{wrapTo(v, to)})
	case fb != nil && tb != nil && fb.Info()&types.IsInteger != 0 && tb.Info()&types.IsFloat != 0:
		e.setVal(x, Sc{app(SReal, "to_real", e.sc(x.X))})
	case fb != nil && tb != nil && fb.Info()&types.IsFloat != 0 && tb.Info()&types.IsFloat != 0:
		e.vals[x] = e.val(x.X)
	case fb != nil && tb != nil && fb.Info()&types.IsFloat != 0 && tb.Info()&types.IsInteger != 0:
		e.note("float to int conversion is nondeterministic")
		e.setVal(x, e.freshValue(x.Name(), to))
	case tb != nil && tb.Info()&types.IsString != 0 && fb != nil && fb.Info()&types.IsInteger != 0:
		e.setVal(x, Sc{app(SStr, "s.fromrune", e.sc(x.X))})
	case tb != nil && tb.Info()&types.IsString != 0:
		// []byte / []rune -> string
		if sl, ok := from.Underlying().(*types.Slice); ok {
			sv := e.val(x.X).(SliceV)
			s := e.freshConst("str", SStr)
			e.assume(eq(app(SInt, "s.len", s), sv.Len), "string(b) length")
			if eb, ok := sl.Elem().Underlying().(*types.Basic); ok && eb.Kind() == types.Uint8 {
				hm := e.cur.get(cellFam(sl.Elem()), arrSort(SInt, SInt))
				e.assume(mk(SBool, "(forall ((qi! Int)) (! (=> (and (<= 0 qi!) (< qi! %s)) (= (s.at %s qi!) (select %s (eref %s (+ %s qi!))))) :pattern ((s.at %s qi!))))", sv.Len.S, s.S, hm.S, sv.Base.S, sv.Off.S, s.S), "string(b) content")
			}
			e.vals[x] = Sc{s}
			return
		}
		e.setVal(x, e.freshValue(x.Name(), to))
	case fb != nil && fb.Info()&types.IsString != 0:
		if sl, ok := to.Underlying().(*types.Slice); ok {
			s := e.sc(x.X)
			base := e.freshConst("bytes", SInt)
			n := app(SInt, "s.len", s)
			e.assume(and(not(eq(base, intLit(0))), e.freshRefFact(base)), "[]byte(s) allocates")
			if eb, ok := sl.Elem().Underlying().(*types.Basic); ok && eb.Kind() == types.Uint8 {
				hm := e.cur.get(cellFam(sl.Elem()), arrSort(SInt, SInt))
				e.assume(mk(SBool, "(forall ((qi! Int)) (! (=> (and (<= 0 qi!) (< qi! %s)) (= (select %s (eref %s qi!)) (s.at %s qi!))) :pattern ((select %s (eref %s qi!)))))", n.S, hm.S, base.S, s.S, hm.S, base.S), "[]byte(s) content")
			}
			e.vals[x] = SliceV{base, intLit(0), n, n}
			return
		}
		e.setVal(x, e.freshValue(x.Name(), to))
	default:
		// pointer <-> unsafe.Pointer, etc.
		if shapeKindOf(from) == kScalar && shapeKindOf(to) == kScalar && scalarSort(from) == scalarSort(to) {
			e.vals[x] = e.val(x.X)
			return
		}
		e.note(fmt.Sprintf("unsupported conversion %s -> %s", from, to))
		e.setVal(x, e.freshValue(x.Name(), to))
	}
}

// allocation clock: every allocation is stamped with the current clock value, which then advances;
// everything that already exists (parameters, loop-carried and loaded references) is older.
const clockFam = "L$CLOCK"

func (e *Enc) clockNow() Term {
	return sel(e.cur.get(clockFam, arrSort(SInt, SInt)), intLit(0))
}

func (e *Enc) stampAlloc(r Term) Term {
	now := e.clockNow()
	f := eq(app(SInt, "ref.time", r), now)
	h := e.cur.get(clockFam, arrSort(SInt, SInt))
	e.cur.set(clockFam, e.define(fmt.Sprintf("%s@c%d", clockFam, e.nextID()), sto(h, intLit(0), add(now, intLit(1)))))
	return f
}

// olderThanNow: a reference value that exists at this point was allocated before now.
func (e *Enc) olderThanNow(v Value, t types.Type) Term {
	var ref Term
	switch x := v.(type) {
	case SliceV:
		ref = x.Base
	case Sc:
		switch t.Underlying().(type) {
		case *types.Pointer, *types.Map:
			ref = x.T
		default:
			return tTrue
		}
	default:
		return tTrue
	}
	return lt(app(SInt, "ref.time", app(SInt, "ref.root", ref)), e.clockNow())
}

func (e *Enc) freshRefFact(r Term) Term {
	cs := []Term{eq(app(SInt, "ref.root", r), r), not(app(SBool, "ref.old", r)), e.stampAlloc(r)}
	for _, p := range e.ptrParams {
		cs = append(cs, not(eq(r, p)))
	}
	for _, a := range e.allocs {
		if a.S != r.S {
			cs = append(cs, not(eq(r, a)))
		}
	}
	e.allocs = append(e.allocs, r)
	return and(cs...)
}

// boxing of values into interfaces
func (e *Enc) boxName(t types.Type) (box, unbox string, tag int) {
	k := sanitize(typeKey(t))
	box = "box$" + k
	unbox = "unbox$" + k
	tag = e.tagFor("type:" + typeKey(t))
	return
}

func (e *Enc) makeInterface(x *ssa.MakeInterface) {
	t := x.X.Type()
	v := e.val(x.X)
	leaves := flatten(v)
	box, unbox, tag := e.boxName(t)
	if !e.declSet[box] {
		sorts := leafSorts(t)
		e.declareFun(box, sorts, SInt)
		var vars, names []string
		for i, s := range sorts {
			vars = append(vars, fmt.Sprintf("(x%d %s)", i, s))
			names = append(names, fmt.Sprintf("x%d", i))
		}
		appl := "(" + smtSym(box) + " " + strings.Join(names, " ") + ")"
		ax := fmt.Sprintf("(not (= %s 0)) (= (iface.type %s) %d)", appl, appl, tag)
		if len(sorts) == 1 {
			e.declareFun(unbox, []string{SInt}, sorts[0])
			ax += fmt.Sprintf(" (= (%s %s) x0)", smtSym(unbox), appl)
		} else {
			// multi-word values (slices, structs): one projection per leaf
			for i, so := range sorts {
				un := fmt.Sprintf("%s#%d", unbox, i)
				e.declareFun(un, []string{SInt}, so)
				ax += fmt.Sprintf(" (= (%s %s) x%d)", smtSym(un), appl, i)
			}
		}
		if len(sorts) > 0 {
			e.axiom(fmt.Sprintf("(forall (%s) (! (and %s) :pattern (%s)))", strings.Join(vars, " "), ax, appl))
		}
	}
	if len(leaves) == 0 {
		c := e.declare(box+"!unit", SInt)
		e.assumeGlobal(and(not(eq(c, intLit(0))), eq(app(SInt, "iface.type", c), intLit(int64(tag)))), "boxed empty struct")
		e.vals[x] = Sc{c}
		return
	}
	e.setVal(x, Sc{app(SInt, smtSym(box), leaves...)})
}

func (e *Enc) typeAssert(x *ssa.TypeAssert) {
	iv := e.sc(x.X)
	at := x.AssertedType
	var okT Term
	var val Value
	if types.IsInterface(at) {
		okT = e.freshConst("taok", SBool)
		e.assume(implies(okT, not(eq(iv, intLit(0)))), "interface assertion succeeds only on non-nil")
		val = Sc{iv}
	} else {
		box, unbox, tag := e.boxName(at)
		_ = box
		okT = and(not(eq(iv, intLit(0))), eq(app(SInt, "iface.type", iv), intLit(int64(tag))))
		sorts := leafSorts(at)
		if len(sorts) == 1 {
			e.declareFun(unbox, []string{SInt}, sorts[0])
			val = Sc{app(sorts[0], smtSym(unbox), iv)}
		} else if len(sorts) > 1 {
			val = e.unboxMulti(unbox, at, sorts, iv)
		} else {
			val = e.freshValueNoRange("unboxed", at)
		}
	}
	if x.CommaOk {
		zv := zeroValue(at)
		okD := e.define(x.Name()+".ok", okT)
		e.vals[x] = TupleV{[]Value{e.defineValue(x.Name()+".v", iteValue(okD, val, zv)), Sc{okD}}}
		e.assume(rangeFact(e.vals[x].(TupleV).E[0], at), "type-asserted value well typed")
		return
	}
	if e.fc != nil && e.fc.CheckAsserts {
		e.assertOb(fmt.Sprintf("safe:typeassert#%d", e.ordinal("typeassert")), okT, "type assertion may fail: "+at.String(), posOf(x))
	} else {
		e.assume(okT, "type assertion succeeds")
		e.assumption("unchecked type assertions in " + e.fnLabel + " assumed to succeed")
	}
	v := e.defineValue(x.Name(), val)
	e.vals[x] = v
	e.assume(rangeFact(v, at), "type-asserted value well typed")
}

func (e *Enc) index(x *ssa.Index) {
	switch t := x.X.Type().Underlying().(type) {
	case *types.Array:
		av := e.val(x.X)
		i := e.sc(x.Index)
		e.boundsCheck(i, intLit(t.Len()), x, "array")
		if s, ok := av.(Sc); ok && shapeKindOf(t.Elem()) == kScalar {
			e.setVal(x, Sc{sel(s.T, i)})
			e.assume(rangeFact(e.vals[x], x.Type()), "array element well typed")
			return
		}
		if arr, ok := av.(ArrayV); ok {
			v := arr.E[len(arr.E)-1]
			for k := len(arr.E) - 2; k >= 0; k-- {
				v = iteValue(eq(i, intLit(int64(k))), arr.E[k], v)
			}
			e.setVal(x, v)
			return
		}
		e.note("Index on array of composite values")
		e.setVal(x, e.freshValue(x.Name(), x.Type()))
	case *types.Basic: // string
		s := e.sc(x.X)
		i := e.sc(x.Index)
		e.boundsCheck(i, app(SInt, "s.len", s), x, "string")
		e.setVal(x, Sc{app(SInt, "s.at", s, i)})
		e.assume(rangeFact(e.vals[x], x.Type()), "string byte")
	default:
		e.note("Index on unsupported type")
		e.setVal(x, e.freshValue(x.Name(), x.Type()))
	}
}

func (e *Enc) indexAddr(x *ssa.IndexAddr) {
	i := e.sc(x.Index)
	switch t := x.X.Type().Underlying().(type) {
	case *types.Slice:
		sv := e.val(x.X).(SliceV)
		e.boundsCheck(i, sv.Len, x, "slice")
		l := sliceElemLoc(sv, i, t.Elem())
		e.locs[x] = l
		e.vals[x] = Sc{e.define(x.Name(), l.Ref)}
		l.Ref = e.vals[x].(Sc).T
		e.locs[x] = l
	case *types.Pointer:
		at := t.Elem().Underlying().(*types.Array)
		base := e.ptrLoc(x.X)
		e.nilCheck(base.Ref, x, "array pointer")
		e.boundsCheck(i, intLit(at.Len()), x, "array")
		l := elemLoc(base.Ref, i, at.Elem())
		l.Priv = base.Priv
		e.vals[x] = Sc{e.define(x.Name(), l.Ref)}
		l.Ref = e.vals[x].(Sc).T
		e.locs[x] = l
	default:
		e.note("IndexAddr on unsupported type")
		e.setVal(x, e.freshValue(x.Name(), x.Type()))
	}
}

func (e *Enc) slice(x *ssa.Slice) {
	var lo, hi, max Term
	has := func(v ssa.Value) bool { return v != nil }
	switch t := x.X.Type().Underlying().(type) {
	case *types.Slice:
		sv := e.val(x.X).(SliceV)
		lo = intLit(0)
		if has(x.Low) {
			lo = e.sc(x.Low)
		}
		hi = sv.Len
		if has(x.High) {
			hi = e.sc(x.High)
		}
		max = sv.Cap
		if has(x.Max) {
			max = e.sc(x.Max)
		}
		if has(x.Low) || has(x.High) || has(x.Max) {
			e.assertOb(fmt.Sprintf("safe:slice#%d", e.ordinal("slice")), and(le(intLit(0), lo), le(lo, hi), le(hi, max), le(max, sv.Cap)), "slice bounds out of range", posOf(x))
		}
		nb := sv.Base
		// slicing a nil slice yields nil
		e.setVal(x, SliceV{nb, add(sv.Off, lo), sub(hi, lo), sub(max, lo)})
	case *types.Basic: // string
		s := e.sc(x.X)
		n := app(SInt, "s.len", s)
		lo = intLit(0)
		if has(x.Low) {
			lo = e.sc(x.Low)
		}
		hi = n
		if has(x.High) {
			hi = e.sc(x.High)
		}
		e.assertOb(fmt.Sprintf("safe:slice#%d", e.ordinal("slice")), and(le(intLit(0), lo), le(lo, hi), le(hi, n)), "string slice bounds out of range", posOf(x))
		e.setVal(x, Sc{app(SStr, "s.sub", s, lo, hi)})
	case *types.Pointer: // pointer to array
		at := t.Elem().Underlying().(*types.Array)
		base := e.ptrLoc(x.X)
		e.nilCheck(base.Ref, x, "array pointer")
		n := intLit(at.Len())
		lo = intLit(0)
		if has(x.Low) {
			lo = e.sc(x.Low)
		}
		hi = n
		if has(x.High) {
			hi = e.sc(x.High)
		}
		max = n
		if has(x.Max) {
			max = e.sc(x.Max)
		}
		if has(x.Low) || has(x.High) || has(x.Max) {
			e.assertOb(fmt.Sprintf("safe:slice#%d", e.ordinal("slice")), and(le(intLit(0), lo), le(lo, hi), le(hi, max), le(max, n)), "slice bounds out of range", posOf(x))
		}
		e.setVal(x, SliceV{base.Ref, lo, sub(hi, lo), sub(max, lo)})
	default:
		e.note("Slice on unsupported type")
		e.setVal(x, e.freshValue(x.Name(), x.Type()))
	}
}

func (e *Enc) makeSlice(x *ssa.MakeSlice) {
	n := e.sc(x.Len)
	c := e.sc(x.Cap)
	e.assertOb(fmt.Sprintf("safe:makeslice#%d", e.ordinal("makeslice")), and(le(intLit(0), n), le(n, c)), "makeslice: len out of range", posOf(x))
	base := e.freshConst("mk", SInt)
	e.assume(and(not(eq(base, intLit(0))), e.freshRefFact(base)), "make allocates")
	st := x.Type().Underlying().(*types.Slice)
	e.zeroElems(base, st.Elem())
	e.setVal(x, SliceV{base, intLit(0), n, c})
}

// zeroElems: the elements of the fresh backing array are zero.
func (e *Enc) zeroElems(base Term, elem types.Type) {
	switch shapeKindOf(elem) {
	case kScalar:
		if _, isArr := elem.Underlying().(*types.Array); isArr && !isOpaque(elem) {
			e.note("make of slice of arrays: zero-initialisation not modelled")
			return
		}
		es := scalarSort(elem)
		fam := cellFam(elem)
		hm := e.cur.get(fam, arrSort(SInt, es))
		e.assume(mk(SBool, "(forall ((qi! Int)) (! (= (select %s (eref %s qi!)) %s) :pattern ((select %s (eref %s qi!)))))", hm.S, base.S, zeroOfSort(es).S, hm.S, base.S), "fresh backing array is zeroed")
	case kStruct:
		st := elem.Underlying().(*types.Struct)
		for i := 0; i < st.NumFields(); i++ {
			ft := st.Field(i).Type()
			if shapeKindOf(ft) == kScalar {
				if _, isArr := ft.Underlying().(*types.Array); isArr && !isOpaque(ft) {
					continue
				}
				es := scalarSort(ft)
				fam := fieldFam(elem, st.Field(i).Name())
				hm := e.cur.get(fam, arrSort(SInt, es))
				e.assume(mk(SBool, "(forall ((qi! Int)) (! (= (select %s (eref %s qi!)) %s) :pattern ((select %s (eref %s qi!)))))", hm.S, base.S, zeroOfSort(es).S, hm.S, base.S), "fresh backing array is zeroed")
			}
		}
	}
}

// sentinelConst: package-level error variables named Err*, EOF, Canceled or DeadlineExceeded are treated as
// constants (non-nil, never reassigned): one SMT constant per variable, independent of the heap.
func (e *Enc) sentinelConst(g *ssa.Global) (Term, bool) {
	pt, ok := g.Type().Underlying().(*types.Pointer)
	if !ok || pt.Elem().String() != "error" || g.Pkg == nil {
		return Term{}, false
	}
	n := g.Name()
	if !(strings.HasPrefix(n, "Err") || n == "EOF" || n == "Canceled" || n == "DeadlineExceeded") {
		return Term{}, false
	}
	name := "gconst$" + sanitize(g.Pkg.Pkg.Path()+"."+n)
	if !e.declSet[name] {
		t := e.declare(name, SInt)
		e.assumeGlobal(not(eq(t, intLit(0))), "error sentinel "+n+" is non-nil")
		seen := false
		for _, other := range e.sentinels {
			if other.S == t.S {
				seen = true
				continue
			}
			e.assumeGlobal(not(eq(t, other)), "distinct error sentinels hold distinct values")
		}
		if !seen {
			e.sentinels = append(e.sentinels, t)
		}
		e.assumption("distinct package-level error sentinels hold distinct error values (each is initialised by its own errors.New / fmt.Errorf)")
		e.assumption("package-level error sentinels (Err*, EOF, Canceled, DeadlineExceeded) are non-nil constants, never reassigned")
		return t, true
	}
	return Term{smtSym(name), SInt}, true
}

// unboxMulti rebuilds a multi-word value of type t from the per-leaf projections of interface value iv.
func (e *Enc) unboxMulti(unbox string, t types.Type, sorts []string, iv Term) Value {
	var leaves []Term
	for i, so := range sorts {
		un := fmt.Sprintf("%s#%d", unbox, i)
		e.declareFun(un, []string{SInt}, so)
		leaves = append(leaves, app(so, smtSym(un), iv))
	}
	v, _ := unflatten(t, leaves)
	return v
}

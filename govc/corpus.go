package main

// Must-fail corpus (thorough tier): every seeded breaking change kept under /verif/seeded/<id>-m<k>/ is
// applied to a scratch copy of the repository's working tree and the property's quick check is run there;
// it must report at least one violation. The result says how much the check can detect; it is recorded in
// the evidence and printed, and never turns into a VIOLATION of the property (a miss is a weakness of the
// check, not of the code).

import (
	"fmt"
	"os"
	"os/exec"
	"path/filepath"
	"sort"
	"strings"
	"sync"
)

type corpusResult struct {
	Seed      string `json:"seed"`
	Caught    bool   `json:"caught"`
	Violation string `json:"first_violation,omitempty"`
	Note      string `json:"note,omitempty"`
}

func runCorpus(id string) []corpusResult {
	dirs, _ := filepath.Glob(filepath.Join(verifDir(), "seeded", id+"-*"))
	sort.Strings(dirs)
	if len(dirs) == 0 {
		return nil
	}
	self, err := os.Executable()
	if err != nil {
		return nil
	}
	root, err := os.MkdirTemp("", "govc-corpus-")
	if err != nil {
		return nil
	}
	defer os.RemoveAll(root)
	out := make([]corpusResult, len(dirs))
	sem := make(chan struct{}, 3)
	var wg sync.WaitGroup
	for i, d := range dirs {
		wg.Add(1)
		go func(i int, d string) {
			defer wg.Done()
			sem <- struct{}{}
			defer func() { <-sem }()
			name := filepath.Base(d)
			res := corpusResult{Seed: name}
			defer func() { out[i] = res }()
			wt := filepath.Join(root, name, "repo")
			vd := filepath.Join(root, name, "verif")
			os.MkdirAll(vd, 0o755)
			if b, err := exec.Command("cp", "-a", repoDir, wt).CombinedOutput(); err != nil {
				res.Note = "copy failed: " + truncate(string(b), 200)
				return
			}
			os.RemoveAll(filepath.Join(wt, ".git"))
			ap := exec.Command("git", "apply", filepath.Join(d, "patch.diff"))
			ap.Dir = wt
			if b, err := ap.CombinedOutput(); err != nil {
				res.Note = "patch does not apply to the current tree: " + truncate(strings.TrimSpace(string(b)), 200)
				return
			}
			for _, f := range []string{"props.json", "known_findings.txt", "spec", "replay", "bounded", "solver_hints.json"} {
				os.Symlink(filepath.Join(verifDir(), f), filepath.Join(vd, f))
			}
			cmd := exec.Command(self, "check", id, "--tier", "quick")
			cmd.Env = append(os.Environ(), "VERIF_REPO="+wt, "VERIF_DIR="+vd, "VERIF_TIER=quick", "GOVC_NO_CORPUS=1")
			b, _ := cmd.CombinedOutput()
			for _, ln := range strings.Split(string(b), "\n") {
				if strings.HasPrefix(ln, "VIOLATION ") {
					res.Caught = true
					v := ln
					if k := strings.LastIndex(v, "/"); k >= 0 {
						v = v[k+1:]
					}
					res.Violation = strings.TrimSuffix(strings.Fields(v)[0], ".json")
					break
				}
			}
			if !res.Caught {
				res.Note = "no violation reported"
				for _, ln := range strings.Split(string(b), "\n") {
					if strings.HasPrefix(ln, "UNDECIDED") {
						res.Note = truncate(ln, 200)
						break
					}
				}
			}
		}(i, d)
	}
	wg.Wait()
	for _, r := range out {
		st := "caught by " + r.Violation
		if !r.Caught {
			st = "NOT caught (" + r.Note + ")"
		}
		fmt.Printf("corpus %-10s %s\n", r.Seed, st)
	}
	return out
}

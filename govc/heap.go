package main

import (
	"fmt"
	"go/types"
	"sort"
	"strings"
)

// HeapState maps heap family names to their current SMT array term.
// Lookups of names not yet touched are resolved lazily through the parents
// (join points) or to a base constant.
type heapParent struct {
	edge Term
	st   *HeapState
}

type HeapState struct {
	enc     *Enc
	m       map[string]Term
	parents []heapParent
	base    string // suffix of base constants when there are no parents
	epoch   Term   // changes whenever any heap may have changed (for heap-dependent pure functions)
	// private families (L$...: non-escaping locals, ghost counters) survive a havoc: names not in
	// privExcl resolve through privFrom, the state before the havoc
	privFrom *HeapState
	privExcl map[string]bool
}

func (e *Enc) newBaseHeap(tag string) *HeapState {
	ep := e.freshConst("epoch"+tag, SInt)
	return &HeapState{enc: e, m: map[string]Term{}, base: tag, epoch: ep}
}

func (h *HeapState) clone() *HeapState {
	n := &HeapState{enc: h.enc, m: map[string]Term{}, parents: h.parents, base: h.base, epoch: h.epoch, privFrom: h.privFrom, privExcl: h.privExcl}
	for k, v := range h.m {
		n.m[k] = v
	}
	return n
}

func (h *HeapState) get(name, sort string) Term {
	h.enc.famSorts[name] = sort
	if t, ok := h.m[name]; ok {
		return t
	}
	var t Term
	if len(h.parents) == 0 && h.privFrom != nil && strings.HasPrefix(name, "L$") && !h.privExcl[name] {
		t = h.privFrom.get(name, sort)
	} else if len(h.parents) == 0 {
		fresh := !h.enc.declSet[name+h.base]
		t = h.enc.declare(name+h.base, sort)
		if fresh && h.base == "@0" && sort == arrSort(SInt, SInt) && !strings.HasPrefix(name, "L$") {
			// modelling assumption: memory allocated during the call is not reachable from the pre-state
			h.enc.axiom(fmt.Sprintf("(forall ((r Int)) (! (ref.old (ref.root (select %s r))) :pattern ((select %s r))))", t.S, t.S))
		}
	} else {
		ts := make([]Term, len(h.parents))
		same := true
		for i, p := range h.parents {
			ts[i] = p.st.get(name, sort)
			if ts[i].S != ts[0].S {
				same = false
			}
		}
		if same {
			t = ts[0]
		} else {
			r := ts[len(ts)-1]
			for i := len(ts) - 2; i >= 0; i-- {
				r = ite(h.parents[i].edge, ts[i], r)
			}
			t = h.enc.define(fmt.Sprintf("%s@j%d", name, h.enc.nextID()), r)
		}
	}
	h.m[name] = t
	return t
}

func (h *HeapState) set(name string, t Term) {
	h.m[name] = t
	h.enc.noteWrite(name)
	if !strings.HasPrefix(name, "L$") {
		h.epoch = h.enc.freshConst("epoch", SInt)
	}
}

// havocAll forgets everything.
func (h *HeapState) havocAll() {
	// private heaps (non-escaping locals, ghost call counters) are never affected by callees
	prev := h.clone()
	h.m = map[string]Term{}
	h.parents = nil
	h.privFrom = prev
	h.privExcl = nil
	h.base = fmt.Sprintf("@h%d", h.enc.nextID())
	h.epoch = h.enc.freshConst("epoch", SInt)
	h.enc.noteWrite("*")
}

func joinHeaps(e *Enc, ps []heapParent) *HeapState {
	if len(ps) == 1 {
		return ps[0].st.clone()
	}
	n := &HeapState{enc: e, m: map[string]Term{}, parents: ps}
	// eager merge for names present in any parent keeps definitions near the join
	names := map[string]string{}
	for _, p := range ps {
		for k, v := range p.st.m {
			names[k] = v.Sort
		}
	}
	keys := make([]string, 0, len(names))
	for k := range names {
		keys = append(keys, k)
	}
	sort.Strings(keys)
	for _, k := range keys {
		n.get(k, names[k])
	}
	same := true
	for _, p := range ps {
		if p.st.epoch.S != ps[0].st.epoch.S {
			same = false
		}
	}
	if same {
		n.epoch = ps[0].st.epoch
	} else {
		r := ps[len(ps)-1].st.epoch
		for i := len(ps) - 2; i >= 0; i-- {
			r = ite(ps[i].edge, ps[i].st.epoch, r)
		}
		n.epoch = e.define(fmt.Sprintf("epoch@j%d", e.nextID()), r)
	}
	return n
}

// ---------------------------------------------------------------------------
// Locations

type locKind int

const (
	locCell locKind = iota // scalar/slice cell in heap family Fam at key Ref
	locInst                // struct or array instance living at Ref
)

// Loc describes where a Go value of type Typ lives.
type Loc struct {
	Kind locKind
	Fam  string // heap family for locCell
	Ref  Term
	Typ  types.Type
	Priv string // private heap namespace (non-escaping local allocation), "" for shared memory
}

// sub-locations inherit the private namespace of their parent
func (e *Enc) fieldLocOf(l Loc, i int) Loc {
	r := e.fieldLoc(l.Ref, l.Typ, i)
	r.Priv = l.Priv
	return r
}

func elemLocOf(l Loc, idx Term, elem types.Type) Loc {
	r := elemLoc(l.Ref, idx, elem)
	r.Priv = l.Priv
	return r
}

func cellFam(t types.Type) string { return "M$" + sanitize(typeKey(t)) }

func fieldFam(st types.Type, fname string) string {
	return "H$" + sanitize(typeKey(st)) + "$" + fname
}

// locOfRef: the location a pointer value with pointee type t designates.
func locOfRef(ref Term, t types.Type) Loc {
	switch shapeKindOf(t) {
	case kStruct, kArrayOfComposite:
		return Loc{Kind: locInst, Ref: ref, Typ: t}
	case kScalar:
		if _, isArr := t.Underlying().(*types.Array); isArr && !isOpaque(t) {
			return Loc{Kind: locInst, Ref: ref, Typ: t}
		}
	}
	return Loc{Kind: locCell, Fam: cellFam(t), Ref: ref, Typ: t}
}

func (e *Enc) frefName(owner types.Type, fname string) string {
	name := "fref$" + sanitize(typeKey(owner)) + "$" + fname
	if !e.declSet[name] {
		e.declareFun(name, []string{SInt}, SInt)
		inv := name + ".inv"
		e.declareFun(inv, []string{SInt}, SInt)
		e.axiom(fmt.Sprintf("(forall ((r Int)) (! (and (= (%s (%s r)) r) (= (ref.tag (%s r)) %d) (not (= (%s r) 0)) (= (ref.root (%s r)) (ref.root r))) :pattern ((%s r))))",
			smtSym(inv), smtSym(name), smtSym(name), e.tagFor(name), smtSym(name), smtSym(name), smtSym(name)))
	}
	return name
}

// fieldLoc gives the location of field i of the struct instance (type st) at ref.
func (e *Enc) fieldLoc(ref Term, owner types.Type, i int) Loc {
	st := owner.Underlying().(*types.Struct)
	f := st.Field(i)
	ft := f.Type()
	inst := false
	switch shapeKindOf(ft) {
	case kStruct, kArrayOfComposite:
		inst = true
	case kScalar:
		if _, isArr := ft.Underlying().(*types.Array); isArr && !isOpaque(ft) {
			inst = true
		}
	}
	if inst {
		fr := e.frefName(owner, f.Name())
		return Loc{Kind: locInst, Ref: app(SInt, smtSym(fr), ref), Typ: ft}
	}
	return Loc{Kind: locCell, Fam: fieldFam(owner, f.Name()), Ref: ref, Typ: ft}
}

func eref(base, idx Term) Term { return app(SInt, "eref", base, idx) }

// sliceElemRef: address of element i of a slice (base, off). The offset is kept as a separate
// argument so that quantifier patterns over element reads contain the index variable bare.
func sliceElemRef(base, off, i Term) Term {
	if off.S == "0" {
		return eref(base, i)
	}
	return app(SInt, "sref", base, off, i)
}

func sliceElemLoc(sv SliceV, i Term, elem types.Type) Loc {
	return locOfRef(sliceElemRef(sv.Base, sv.Off, i), elem)
}

// elemLoc gives the location of element idx of the array instance at ref (or slice backing array).
func elemLoc(base, idx Term, elem types.Type) Loc {
	return locOfRef(eref(base, idx), elem)
}

// load reads the value at loc.
func (e *Enc) load(h *HeapState, l Loc) Value {
	switch l.Kind {
	case locCell:
		switch shapeKindOf(l.Typ) {
		case kSlice:
			g := func(sfx string) Term { return sel(h.get(l.Priv+l.Fam+sfx, arrSort(SInt, SInt)), l.Ref) }
			return SliceV{g("#base"), g("#off"), g("#len"), g("#cap")}
		default:
			return Sc{sel(h.get(l.Priv+l.Fam, arrSort(SInt, scalarSort(l.Typ))), l.Ref)}
		}
	case locInst:
		switch u := l.Typ.Underlying().(type) {
		case *types.Struct:
			fs := make([]Value, u.NumFields())
			for i := 0; i < u.NumFields(); i++ {
				fs[i] = e.load(h, e.fieldLocOf(l, i))
			}
			return StructV{fs}
		case *types.Array:
			if shapeKindOf(u.Elem()) == kScalar {
				es := scalarSort(u.Elem())
				as := arrSort(SInt, es)
				if u.Len() <= 64 {
					t := constArr(as, zeroOfSort(es))
					for i := int64(0); i < u.Len(); i++ {
						ev := e.load(h, elemLocOf(l, intLit(i), u.Elem())).(Sc)
						t = sto(t, intLit(i), ev.T)
					}
					return Sc{t}
				}
				a := e.freshConst("arrload", as)
				fam := l.Priv + cellFam(u.Elem())
				hm := h.get(fam, arrSort(SInt, es))
				e.assume(mk(SBool, "(forall ((qi! Int)) (! (= (select %s qi!) (select %s (eref %s qi!))) :pattern ((select %s qi!))))", a.S, hm.S, l.Ref.S, a.S), "array load")
				return Sc{a}
			}
			if n, et, ok := arrayVLen(l.Typ); ok {
				es := make([]Value, n)
				for i := 0; i < n; i++ {
					es[i] = e.load(h, elemLocOf(l, intLit(int64(i)), et))
				}
				return ArrayV{es}
			}
			e.note("load of array with composite elements (opaque)")
			return Sc{e.freshConst("opaquearr", SInt)}
		}
	}
	panic("load: bad loc")
}

// store writes v at loc.
func (e *Enc) store(h *HeapState, l Loc, v Value) {
	switch l.Kind {
	case locCell:
		switch shapeKindOf(l.Typ) {
		case kSlice:
			sv, ok := v.(SliceV)
			if !ok {
				panic(fmt.Sprintf("store: slice expected, got %T", v))
			}
			p := func(sfx string, t Term) {
				as := arrSort(SInt, SInt)
				nm := l.Priv + l.Fam + sfx
				h.set(nm, e.define(fmt.Sprintf("%s@s%d", nm, e.nextID()), sto(h.get(nm, as), l.Ref, t)))
			}
			p("#base", sv.Base)
			p("#off", sv.Off)
			p("#len", sv.Len)
			p("#cap", sv.Cap)
		default:
			sc := v.(Sc)
			as := arrSort(SInt, scalarSort(l.Typ))
			nm := l.Priv + l.Fam
			nt := sto(h.get(nm, as), l.Ref, sc.T)
			h.set(nm, e.define(fmt.Sprintf("%s@s%d", nm, e.nextID()), nt))
		}
	case locInst:
		switch u := l.Typ.Underlying().(type) {
		case *types.Struct:
			sv, ok := v.(StructV)
			if !ok {
				panic(fmt.Sprintf("store: struct expected, got %T", v))
			}
			for i := 0; i < u.NumFields(); i++ {
				e.store(h, e.fieldLocOf(l, i), sv.F[i])
			}
		case *types.Array:
			if shapeKindOf(u.Elem()) == kScalar {
				sc := v.(Sc)
				if u.Len() <= 64 {
					for i := int64(0); i < u.Len(); i++ {
						e.store(h, elemLocOf(l, intLit(i), u.Elem()), Sc{sel(sc.T, intLit(i))})
					}
					return
				}
				es := scalarSort(u.Elem())
				fam := l.Priv + cellFam(u.Elem())
				old := h.get(fam, arrSort(SInt, es))
				nw := e.freshConst(fam+"@arrst", arrSort(SInt, es))
				e.assume(mk(SBool, "(forall ((r Int)) (! (= (select %s r) (ite (and (= (eref.base r) %s) (= r (eref %s (eref.idx r))) (<= 0 (eref.idx r)) (< (eref.idx r) %d)) (select %s (eref.idx r)) (select %s r))) :pattern ((select %s r))))",
					nw.S, l.Ref.S, l.Ref.S, u.Len(), sc.T.S, old.S, nw.S), "array store")
				h.set(fam, nw)
				return
			}
			if n, et, ok := arrayVLen(l.Typ); ok {
				if av, isArr := v.(ArrayV); isArr {
					for i := 0; i < n; i++ {
						e.store(h, elemLocOf(l, intLit(int64(i)), et), av.E[i])
					}
					return
				}
			}
			e.note("store of array with composite elements (havoc)")
			h.havocAll()
		}
	}
}

// havocLoc replaces the content of loc by an unconstrained (well-typed) value.
func (e *Enc) havocLoc(h *HeapState, l Loc) {
	v := e.freshValue("hv", l.Typ)
	e.store(h, l, v)
}

package main

// Layout engine for C19: the C declarations in control/kern are the specification of the Go types that
// mirror them. Every run
//   1. extracts mechanically from tproxy.c (comments stripped) every named struct/union/enum declaration
//      that a mirrored type depends on, all object-like #define lines, and ebpf_sync_defs.h verbatim;
//      dropped: #include lines (the kernel headers are absent in this tree; replaced by a fixed typedef
//      prelude for __u8..__u64, __be16..__be64, bool), function bodies, map definitions, globals;
//   2. has clang (target bpfel) lay the records out (-fdump-record-layouts) and evaluate the constants;
//   3. computes the layout of the Go counterparts with go/types (gc, amd64 sizes) from the loaded tree;
//   4. emits one obligation per mirrored record / field / constant: ground equalities, decided by evaluation.

import (
	"bytes"
	"fmt"
	"go/ast"
	"go/parser"
	"go/printer"
	"go/token"
	"go/types"
	"os"
	"os/exec"
	"path/filepath"
	"regexp"
	"sort"
	"strconv"
	"strings"
	"time"
)

type cDecl struct {
	kind, name, text string
	pos              int
}

type cMember struct {
	off   int64
	depth int
	typ   string
	name  string
}

type cRecord struct {
	size    int64
	members []cMember
}

func stripCComments(s string) string {
	var b strings.Builder
	for i := 0; i < len(s); {
		switch {
		case strings.HasPrefix(s[i:], "//"):
			for i < len(s) && s[i] != '\n' {
				i++
			}
		case strings.HasPrefix(s[i:], "/*"):
			j := strings.Index(s[i+2:], "*/")
			if j < 0 {
				i = len(s)
			} else {
				// keep line structure
				b.WriteString(strings.Repeat("\n", strings.Count(s[i:i+2+j+2], "\n")))
				i += 2 + j + 2
			}
		case s[i] == '"':
			j := i + 1
			for j < len(s) && s[j] != '"' {
				if s[j] == '\\' {
					j++
				}
				j++
			}
			b.WriteString(s[i:min(j+1, len(s))])
			i = j + 1
		default:
			b.WriteByte(s[i])
			i++
		}
	}
	return b.String()
}

var reDeclHead = regexp.MustCompile(`(?m)^(struct|union|enum)(\s+__attribute__\(\(\w+\)\))?\s+(\w+)\s*\{`)
var reDefine = regexp.MustCompile(`(?m)^#define[ \t]+(\w+)[ \t]+([^\n\\]*(\\\n[^\n\\]*)*)$`)
var reAggRef = regexp.MustCompile(`\b(struct|union|enum)\s+(\w+)`)

func extractCDecls(src string) (map[string]*cDecl, []string) {
	decls := map[string]*cDecl{}
	var defines []string
	for _, m := range reDeclHead.FindAllStringSubmatchIndex(src, -1) {
		kind := src[m[2]:m[3]]
		name := src[m[6]:m[7]]
		// match braces
		i := m[1] - 1
		depth := 0
		end := -1
		for j := i; j < len(src); j++ {
			if src[j] == '{' {
				depth++
			} else if src[j] == '}' {
				depth--
				if depth == 0 {
					end = j
					break
				}
			}
		}
		if end < 0 {
			continue
		}
		semi := strings.Index(src[end:], ";")
		if semi < 0 {
			continue
		}
		tail := src[end+1 : end+semi]
		attr := ""
		if k := strings.Index(tail, "__attribute__"); k >= 0 {
			// keep a trailing attribute such as aligned(8); drop a declared variable
			attr = " " + strings.TrimSpace(tail[k:])
			if sp := regexp.MustCompile(`^(\s*__attribute__\(\([^;]*?\)\)\))`).FindString(" " + strings.TrimSpace(tail[k:])); sp != "" {
				attr = sp
			}
		}
		decls[kind+" "+name] = &cDecl{kind: kind, name: name, text: src[m[0]:end+1] + attr + ";", pos: m[0]}
	}
	for _, m := range reDefine.FindAllStringSubmatch(src, -1) {
		if strings.TrimSpace(m[2]) == "" {
			continue
		}
		defines = append(defines, m[0])
	}
	return decls, defines
}

func goNameOfC(c string) string {
	c = strings.TrimLeft(c, "_")
	parts := strings.Split(c, "_")
	var b strings.Builder
	for _, p := range parts {
		if p == "" {
			continue
		}
		b.WriteString(strings.ToUpper(p[:1]) + p[1:])
	}
	return b.String()
}

const cPrelude = `typedef unsigned char __u8; typedef unsigned short __u16; typedef unsigned int __u32; typedef unsigned long long __u64;
typedef signed char __s8; typedef short __s16; typedef int __s32; typedef long long __s64;
typedef __u16 __be16; typedef __u32 __be32; typedef __u64 __be64; typedef __u16 __le16; typedef __u32 __le32; typedef __u64 __le64;
typedef _Bool bool;
`

var cBaseSize = map[string]int64{"__u8": 1, "__u16": 2, "__u32": 4, "__u64": 8, "__s8": 1, "__s16": 2, "__s32": 4, "__s64": 8,
	"__be16": 2, "__be32": 4, "__be64": 8, "__le16": 2, "__le32": 4, "__le64": 8, "bool": 1, "_Bool": 1, "char": 1, "unsigned char": 1,
	"short": 2, "unsigned short": 2, "int": 4, "unsigned int": 4, "long long": 8, "unsigned long long": 8}

var reRecLine = regexp.MustCompile(`^\s*(\d+) \|( +)(.*)$`)
var reRecSize = regexp.MustCompile(`\[sizeof=(\d+),`)
var reIRConst = regexp.MustCompile(`(?m)^@(\w+) = .*constant i64 (-?\d+)`)

func parseRecordLayouts(out string) map[string]*cRecord {
	recs := map[string]*cRecord{}
	var cur *cRecord
	var curName string
	for _, line := range strings.Split(out, "\n") {
		if strings.HasPrefix(line, "*** Dumping AST Record Layout") {
			cur = nil
			continue
		}
		if m := reRecSize.FindStringSubmatch(line); m != nil && cur != nil {
			cur.size, _ = strconv.ParseInt(m[1], 10, 64)
			recs[curName] = cur
			cur = nil
			continue
		}
		m := reRecLine.FindStringSubmatch(line)
		if m == nil {
			continue
		}
		off, _ := strconv.ParseInt(m[1], 10, 64)
		depth := (len(m[2]) - 1) / 2
		rest := strings.TrimRight(m[3], " ")
		if cur == nil {
			cur = &cRecord{}
			curName = rest
			continue
		}
		// "<type> <name>" ; anonymous aggregates have no name: "union match_set::(anonymous at ...)"
		typ, name := rest, ""
		if strings.Contains(rest, "(anonymous at") || strings.Contains(rest, "(unnamed at") {
			if k := strings.LastIndex(rest, ")"); k >= 0 {
				typ = rest[:k+1]
				name = strings.TrimSpace(rest[k+1:])
			}
		} else if k := strings.LastIndex(rest, " "); k >= 0 {
			typ, name = rest[:k], rest[k+1:]
		}
		cur.members = append(cur.members, cMember{off: off, depth: depth, typ: typ, name: name})
	}
	return recs
}

type leaf struct {
	path string
	off  int64
	size int64
	typ  string
	pad  bool
}

// cLeaves flattens a record dump to its scalar/array members with Go-style paths.
func cLeaves(r *cRecord, enumSize map[string]int64) ([]leaf, error) {
	var out []leaf
	var stack []string // names per depth (1-based)
	for i, m := range r.members {
		for len(stack) >= m.depth {
			stack = stack[:len(stack)-1]
		}
		isAgg := i+1 < len(r.members) && r.members[i+1].depth > m.depth
		nm := goNameOfC(m.name)
		if isAgg {
			stack = append(stack, nm)
			continue
		}
		stack = append(stack, nm)
		var parts []string
		for _, s := range stack {
			if s != "" {
				parts = append(parts, s)
			}
		}
		sz, err := cTypeSize(m.typ, enumSize)
		if err != nil {
			return nil, err
		}
		out = append(out, leaf{path: strings.Join(parts, "."), off: m.off, size: sz, typ: m.typ})
	}
	return out, nil
}

var reArr = regexp.MustCompile(`\[(\d+)\]`)

func cTypeSize(t string, enumSize map[string]int64) (int64, error) {
	n := int64(1)
	for _, m := range reArr.FindAllStringSubmatch(t, -1) {
		k, _ := strconv.ParseInt(m[1], 10, 64)
		n *= k
	}
	base := strings.TrimSpace(reArr.ReplaceAllString(t, ""))
	if s, ok := cBaseSize[base]; ok {
		return s * n, nil
	}
	if strings.HasPrefix(base, "enum ") {
		if s, ok := enumSize[strings.TrimPrefix(base, "enum ")]; ok {
			return s * n, nil
		}
	}
	return 0, fmt.Errorf("unknown C member type %q", t)
}

func goLeaves(t types.Type, base int64, prefix string, sizes types.Sizes, out *[]leaf) {
	st, ok := t.Underlying().(*types.Struct)
	if !ok {
		*out = append(*out, leaf{path: prefix, off: base, size: sizes.Sizeof(t), typ: t.String()})
		return
	}
	var fields []*types.Var
	for i := 0; i < st.NumFields(); i++ {
		fields = append(fields, st.Field(i))
	}
	offs := sizes.Offsetsof(fields)
	for i, f := range fields {
		if f.Type().String() == "structs.HostLayout" {
			continue
		}
		p := f.Name()
		if prefix != "" {
			p = prefix + "." + f.Name()
		}
		if f.Name() == "_" {
			*out = append(*out, leaf{path: p, off: base + offs[i], size: sizes.Sizeof(f.Type()), pad: true, typ: f.Type().String()})
			continue
		}
		if _, isSt := f.Type().Underlying().(*types.Struct); isSt {
			goLeaves(f.Type(), base+offs[i], p, sizes, out)
			continue
		}
		*out = append(*out, leaf{path: p, off: base + offs[i], size: sizes.Sizeof(f.Type()), typ: f.Type().String()})
	}
}

type layoutPair struct {
	goName, cName string
	goType        types.Type
	where         string
}

func runLayout(cfg *PropConfig, w *World) *FuncReport {
	rep := &FuncReport{Label: "layout: C declarations of control/kern vs their Go mirrors", Name: "layout", PkgPath: modPath + "/control"}
	t0 := time.Now()
	fail := func(format string, a ...interface{}) *FuncReport {
		rep.Err = fmt.Errorf("layout engine: "+format, a...)
		return rep
	}
	if w == nil {
		return fail("no loaded packages")
	}
	ctl := w.TypesPkgs[modPath+"/control"]
	consts := w.TypesPkgs[modPath+"/common/consts"]
	if ctl == nil || consts == nil {
		return fail("packages control and common/consts must be loaded")
	}
	raw, err := os.ReadFile(filepath.Join(repoDir, "control/kern/tproxy.c"))
	if err != nil {
		return fail("%v", err)
	}
	syncDefs, err := os.ReadFile(filepath.Join(repoDir, "control/kern/ebpf_sync_defs.h"))
	if err != nil {
		return fail("%v", err)
	}
	src := stripCComments(string(raw))
	decls, defines := extractCDecls(src)
	syncDecls, _ := extractCDecls(stripCComments(string(syncDefs)))
	sizes := types.SizesFor("gc", "amd64")

	// pairs: every C struct with a bpf<CamelCase> counterpart in the (stub) build of package control
	var pairs []layoutPair
	var cnames []string
	for k, d := range decls {
		if d.kind == "struct" || d.kind == "union" {
			cnames = append(cnames, k)
		}
	}
	sort.Strings(cnames)
	for _, k := range cnames {
		d := decls[k]
		gn := "bpf" + goNameOfC(d.name)
		if obj := ctl.Scope().Lookup(gn); obj != nil {
			if _, ok := obj.Type().Underlying().(*types.Struct); ok {
				pairs = append(pairs, layoutPair{goName: gn, cName: k, goType: obj.Type(), where: "control (stub build types)"})
			}
		}
	}
	// hand-written types of the real build (control/bpf_utils.go is excluded from the stub build): parsed from its AST
	extraPairs, perr := handWrittenPairs(ctl)
	if perr != nil {
		return fail("%v", perr)
	}
	pairs = append(pairs, extraPairs...)
	if len(pairs) < 8 {
		return fail("only %d mirrored records found (extraction broken?)", len(pairs))
	}

	// closure of the needed C declarations
	need := map[string]bool{}
	var visit func(k string)
	visit = func(k string) {
		if need[k] {
			return
		}
		d := decls[k]
		if d == nil {
			return
		}
		need[k] = true
		for _, m := range reAggRef.FindAllStringSubmatch(d.text, -1) {
			visit(m[1] + " " + m[2])
		}
	}
	for _, p := range pairs {
		if decls[p.cName] == nil {
			return fail("C declaration %s not found", p.cName)
		}
		visit(p.cName)
	}
	var needed []*cDecl
	for k := range need {
		needed = append(needed, decls[k])
	}
	sort.Slice(needed, func(i, j int) bool { return needed[i].pos < needed[j].pos })

	var cf bytes.Buffer
	cf.WriteString(cPrelude)
	for _, d := range defines {
		if strings.Contains(d, "bpf_printk") {
			continue
		}
		cf.WriteString(d + "\n")
	}
	cf.WriteString(string(syncDefs) + "\n")
	for _, d := range needed {
		cf.WriteString(d.text + "\n")
	}
	// probes
	var enumNames []string
	for k, d := range syncDecls {
		if d.kind == "enum" {
			enumNames = append(enumNames, k)
		}
	}
	for k, d := range decls {
		if d.kind == "enum" && need[k] {
			enumNames = append(enumNames, k)
		}
	}
	sort.Strings(enumNames)
	for _, k := range enumNames {
		n := strings.TrimPrefix(k, "enum ")
		fmt.Fprintf(&cf, "const long long __szenum_%s = sizeof(enum %s);\n", n, n)
	}
	for i, p := range pairs {
		fmt.Fprintf(&cf, "const long long __szrec_%d = sizeof(%s);\n", i, p.cName)
	}
	// constants: enumerators of ebpf_sync_defs.h and selected #defines
	type constPair struct{ c, goName string }
	var cps []constPair
	reEnumerator := regexp.MustCompile(`(?m)^\s*(\w+)\s*(=[^,}]*)?,`)
	for _, k := range enumNames {
		d := syncDecls[k]
		if d == nil {
			continue
		}
		body := d.text[strings.Index(d.text, "{")+1 : strings.LastIndex(d.text, "}")]
		for _, m := range reEnumerator.FindAllStringSubmatch(body, -1) {
			g := m[1]
			if strings.HasPrefix(g, "IpVersionType_") {
				g = "IpVersion_" + strings.TrimPrefix(g, "IpVersionType_")
			}
			cps = append(cps, constPair{m[1], g})
		}
	}
	for _, m := range reDefine.FindAllStringSubmatch(string(syncDefs), -1) {
		if strings.HasPrefix(m[1], "OUTBOUND_") {
			cps = append(cps, constPair{m[1], "Outbound" + goNameOfC(strings.ToLower(strings.TrimPrefix(m[1], "OUTBOUND_")))})
		}
	}
	for i, cp := range cps {
		fmt.Fprintf(&cf, "const long long __cval_%d = (long long)(%s);\n", i, cp.c)
	}
	fmt.Fprintf(&cf, "const long long __cval_maxmatch = (long long)(MAX_MATCH_SET_LEN);\n")
	// every object-like #define of tproxy.c whose CamelCase name is a constant of common/consts
	// (TASK_COMM_LEN -> TaskCommLen, TPROXY_MARK -> TproxyMark, ...)
	var defPairs []constPair
	for _, d := range defines {
		m := reDefine.FindStringSubmatch(d)
		if m == nil {
			continue
		}
		gn := goNameOfC(strings.ToLower(m[1]))
		if _, ok := consts.Scope().Lookup(gn).(*types.Const); ok {
			defPairs = append(defPairs, constPair{m[1], gn})
		}
	}
	for i, cp := range defPairs {
		fmt.Fprintf(&cf, "const long long __dval_%d = (long long)(%s);\n", i, cp.c)
	}
	// file-scope `static const <int type> name [= literal];` keys of tproxy.c (zero_key, one_key, two_key)
	type keyConst struct {
		c, goName string
		val       int64
	}
	var keyConsts []keyConst
	reStaticConst := regexp.MustCompile(`(?m)^static const __u(?:8|16|32|64) (\w+)(?:\s*=\s*(0x[0-9a-fA-F]+|\d+))?;`)
	for _, m := range reStaticConst.FindAllStringSubmatch(src, -1) {
		gn := goNameOfC(m[1])
		if _, ok := consts.Scope().Lookup(gn).(*types.Const); !ok {
			continue
		}
		var v int64
		if m[2] != "" {
			v, _ = strconv.ParseInt(m[2], 0, 64)
		}
		keyConsts = append(keyConsts, keyConst{m[1], gn, v})
	}

	tmp, err := os.MkdirTemp("", "govc-layout-")
	if err != nil {
		return fail("%v", err)
	}
	defer os.RemoveAll(tmp)
	cfile := filepath.Join(tmp, "extract.c")
	os.WriteFile(cfile, cf.Bytes(), 0o644)
	dump, err := exec.Command("clang", "-target", "bpfel", "-fsyntax-only", "-Xclang", "-fdump-record-layouts", cfile).CombinedOutput()
	if err != nil {
		return fail("clang rejected the extracted declarations: %s", truncate(string(dump), 1500))
	}
	ir, err := exec.Command("clang", "-target", "bpfel", "-O0", "-S", "-emit-llvm", "-o", "-", cfile).CombinedOutput()
	if err != nil {
		return fail("clang -emit-llvm failed: %s", truncate(string(ir), 1500))
	}
	recs := parseRecordLayouts(string(dump))
	irv := map[string]int64{}
	for _, m := range reIRConst.FindAllStringSubmatch(string(ir), -1) {
		v, _ := strconv.ParseInt(m[2], 10, 64)
		irv[m[1]] = v
	}
	enumSize := map[string]int64{}
	for _, k := range enumNames {
		n := strings.TrimPrefix(k, "enum ")
		v, ok := irv["__szenum_"+n]
		if !ok {
			return fail("no size for enum %s", n)
		}
		enumSize[n] = v
	}

	ms := time.Since(t0).Milliseconds()
	add := func(name, desc string, ok bool, detail string) {
		ob := ObResult{Name: "layout:" + name, Desc: desc, Solver: "evaluation (clang -target bpfel record layout vs go/types gc/amd64 sizes)", Ms: ms / 50, Status: "ok"}
		if !ok {
			ob.Status = "mismatch"
			ob.Model = detail
			ob.Output = detail
			ob.Desc = desc + " -- " + detail
		}
		rep.Obligations = append(rep.Obligations, ob)
	}

	for i, p := range pairs {
		r := recs[p.cName]
		if r == nil {
			return fail("clang printed no layout for %s", p.cName)
		}
		cl, err := cLeaves(r, enumSize)
		if err != nil {
			return fail("%s: %v", p.cName, err)
		}
		var gl []leaf
		goLeaves(p.goType, 0, "", sizes, &gl)
		gsize := sizes.Sizeof(p.goType)
		csize := irv[fmt.Sprintf("__szrec_%d", i)]
		add(p.goName+"/size", fmt.Sprintf("sizeof(%s) == Sizeof(%s) [%s]", p.cName, p.goName, p.where), gsize == csize && csize == r.size,
			fmt.Sprintf("C %d bytes, Go %d bytes", csize, gsize))
		// member names are compared case-insensitively (bpf2go CamelCases C names; hand-written types differ in case only)
		cByPath := map[string]leaf{}
		for _, l := range cl {
			key := strings.ToLower(l.path)
			if _, dup := cByPath[key]; !dup {
				cByPath[key] = l
			}
		}
		matched := map[string]bool{}
		for _, g := range gl {
			if g.pad {
				continue
			}
			c, ok := cByPath[strings.ToLower(g.path)]
			if !ok {
				add(p.goName+"/"+g.path, fmt.Sprintf("Go field %s.%s has a C member", p.goName, g.path), false, "no member of that name in "+p.cName)
				continue
			}
			matched[strings.ToLower(g.path)] = true
			add(p.goName+"/"+g.path, fmt.Sprintf("%s.%s: offset and width equal the C member's (%s)", p.goName, g.path, c.typ), c.off == g.off && c.size == g.size,
				fmt.Sprintf("C offset %d width %d, Go offset %d width %d", c.off, c.size, g.off, g.size))
		}
		// every byte of every C member that has no Go field of its name lies in some Go field (union alternatives, padding)
		var keys []string
		for key := range cByPath {
			keys = append(keys, key)
		}
		sort.Strings(keys)
		for _, key := range keys {
			c := cByPath[key]
			if matched[key] {
				continue
			}
			covered := true
			for b := c.off; b < c.off+c.size; b++ {
				in := false
				for _, g := range gl {
					if b >= g.off && b < g.off+g.size {
						in = true
						break
					}
				}
				if !in {
					covered = false
					break
				}
			}
			add(p.goName+"/covers:"+c.path, fmt.Sprintf("every byte of C member %s.%s is mirrored by Go storage", p.cName, c.path), covered,
				fmt.Sprintf("C member at offset %d width %d is not covered by the Go fields", c.off, c.size))
		}
	}

	// constants
	for i, cp := range cps {
		cv, ok := irv[fmt.Sprintf("__cval_%d", i)]
		if !ok {
			return fail("no value for C constant %s", cp.c)
		}
		obj, _ := consts.Scope().Lookup(cp.goName).(*types.Const)
		if obj == nil {
			add("const:"+cp.c, fmt.Sprintf("C %s has the Go constant consts.%s", cp.c, cp.goName), false, "Go constant not found")
			continue
		}
		gv, exact := constantInt64(obj)
		add("const:"+cp.c, fmt.Sprintf("%s == consts.%s", cp.c, cp.goName), exact && gv == cv, fmt.Sprintf("C %d, Go %d", cv, gv))
	}
	for i, cp := range defPairs {
		cv, ok := irv[fmt.Sprintf("__dval_%d", i)]
		if !ok {
			return fail("no value for #define %s", cp.c)
		}
		obj := consts.Scope().Lookup(cp.goName).(*types.Const)
		gv, exact := constantInt64(obj)
		add("const:"+cp.c, fmt.Sprintf("#define %s == consts.%s", cp.c, cp.goName), exact && gv == cv, fmt.Sprintf("C %d, Go %d", cv, gv))
	}
	for _, kc := range keyConsts {
		obj := consts.Scope().Lookup(kc.goName).(*types.Const)
		gv, exact := constantInt64(obj)
		add("const:"+kc.c, fmt.Sprintf("static const %s == consts.%s", kc.c, kc.goName), exact && gv == kc.val, fmt.Sprintf("C %d, Go %d", kc.val, gv))
	}
	if len(keyConsts) < 3 {
		return fail("expected the map keys zero_key/one_key/two_key of tproxy.c to have Go counterparts, found %d", len(keyConsts))
	}
	// MAX_MATCH_SET_LEN vs the initialiser of consts.MaxMatchSetLen
	if gv, err := varInitValue(filepath.Join(repoDir, "common/consts/ebpf.go"), "MaxMatchSetLen"); err != nil {
		return fail("%v", err)
	} else {
		add("const:MAX_MATCH_SET_LEN", "MAX_MATCH_SET_LEN == initial value of consts.MaxMatchSetLen", gv == irv["__cval_maxmatch"], fmt.Sprintf("C %d, Go %d", irv["__cval_maxmatch"], gv))
	}
	// anchors in the C text: the kernel's connectivity key expression that the contract of outboundConnectivityMapKey restates
	anchor := func(name, re, what string) {
		ok := regexp.MustCompile(re).MatchString(src)
		add("c-anchor:"+name, what, ok, "the expected expression is no longer present in tproxy.c; the Go contract restating it must be re-derived")
	}
	anchor("connectivity-key", `key\s*=\s*\(\(__u32\)outbound\s*\*\s*6\)\s*\+\s*\(domain_idx\s*\*\s*2\)\s*\+\s*ip_idx\s*;`, "tproxy.c computes the connectivity key as ((__u32)outbound * 6) + (domain_idx * 2) + ip_idx")
	anchor("connectivity-domain", `if\s*\(l4proto\s*==\s*IPPROTO_UDP\)\s*\{\s*if\s*\(dport\s*==\s*bpf_htons\(53\)\)\s*domain_idx\s*=\s*1;\s*else\s*domain_idx\s*=\s*2;`, "tproxy.c: domain_idx is 0 for TCP, 1 for UDP port 53, 2 for other UDP")
	anchor("connectivity-ipidx", `ip_idx\s*=\s*skb->protocol\s*==\s*bpf_htons\(ETH_P_IP\)\s*\?\s*0\s*:\s*1\s*;`, "tproxy.c: ip_idx is 0 for IPv4, 1 otherwise")

	// how route() reads the 16-byte value of a match_set: the positions the Go encoders (contract macro `agree`
	// in control/zz_verif_contracts.go) write to. Offsets and widths come from the record layout of the C union.
	views := []struct {
		member string
		off    int64
		width  int64
	}{{"Index", 0, 4}, {"PortRange.PortStart", 0, 2}, {"PortRange.PortEnd", 2, 2}, {"L4protoType", 0, 4}, {"IpVersion", 0, 4}, {"Pname", 0, 16}, {"Dscp", 0, 1}, {"Value", 0, 16}}
	if r := recs["struct match_set"]; r != nil {
		cl, _ := cLeaves(r, enumSize)
		for _, v := range views {
			found := false
			for _, l := range cl {
				if l.path == v.member {
					found = true
					add("view:match_set."+v.member, fmt.Sprintf("C union member match_set.%s sits at offset %d, width %d (the bytes the Go encoder writes)", v.member, v.off, v.width),
						l.off == v.off && l.size == v.width, fmt.Sprintf("C offset %d width %d", l.off, l.size))
				}
			}
			if !found {
				add("view:match_set."+v.member, "C union member match_set."+v.member+" exists", false, "member not found in struct match_set")
			}
		}
	} else {
		return fail("no layout for struct match_set")
	}
	anchor("route-port", `check_port\s*>=\s*match_set->port_range\.port_start\s*&&\s*check_port\s*<=\s*match_set->port_range\.port_end`, "route(): a port matches iff port_start <= port <= port_end (host order, both ends inclusive)")
	anchor("route-port-host-order", `ctx->h_dport\s*=\s*bpf_ntohs\(\(\(struct tcphdr \*\)l4hdr\)->dest\)`, "route(): ports are compared in host byte order")
	anchor("route-lpm-index", `bpf_map_lookup_elem\(&lpm_array_map,\s*&match_set->index\)`, "route(): the trie of an address rule is lpm_array_map[match_set->index]")
	anchor("route-mask", `__u8 mask\s*=\s*match_type\s*==\s*MatchType_L4Proto\s*\?\s*match_set->l4proto_type\s*:\s*match_set->ip_version;`, "route(): protocol/version rules read a one-byte mask from the value")
	anchor("route-mask-test", `if\s*\(value & mask\)`, "route(): protocol/version rules hit iff value & mask != 0")
	anchor("route-pname", `if\s*\(is_wan\s*&&\s*equal16\(match_set->pname,\s*pname\)\)`, "route(): process-name rules compare all 16 bytes, WAN only")
	anchor("route-dscp", `if\s*\(dscp\s*==\s*match_set->dscp\)`, "route(): DSCP rules compare the first value byte")
	anchor("route-domain-bit", `\(ctx->domain_word_bits\s*>>\s*\(index % 32\)\)\s*&\s*1`, "route(): domain rule i hits iff bit i%32 of bitmap word i/32 is set")
	anchor("route-result", `ctx->result\s*=\s*\(__s64\)match_outbound\s*\|\s*\(\(__s64\)match_set->mark\s*<<\s*8\)\s*\|\s*\(\(__s64\)must\s*<<\s*40\);`, "route(): result = outbound | mark<<8 | must<<40")
	anchor("route-must", `bool must\s*=\s*!!\(ctx->route_state & ROUTE_STATE_MUST\)\s*\|\|\s*match_set->must;`, "route(): must = earlier must_rules hit || rule's must")
	anchor("route-not", `if\s*\(!!\(ctx->route_state & ROUTE_STATE_GOOD_SUBRULE\)\s*==\s*match_not\)`, "route(): a sub-rule fails iff hit == not")
	anchor("route-lpm-prefixlen", `ctx->lpm_key_daddr\.prefixlen\s*=\s*IPV6_BYTE_LENGTH \* 8;`, "route(): addresses are looked up as /128 keys")

	// the two generated files (Go constants, C #defines) are what the generator in the tree writes today from
	// the shared spec: the generator is run in a scratch module and its output compared byte for byte
	for _, g := range checkGenerated() {
		add("generated:"+g.name, "checked-in "+g.name+" equals the output of cmd/generators/gen_ebpf_sync on common/consts/ebpf_sync_spec.json", g.ok, g.detail)
	}
	// ... and the generator writes the SAME value for each name into both files, namely the spec's, also for a spec
	// whose values are not their list positions (the checked-in spec numbers most lists 1,2,3.. / 0,1,2..)
	for _, g := range checkGeneratorAgreement() {
		add("generated:agreement:"+g.name, "on a renumbered spec the generated Go constants and C definitions of "+g.name+" both carry the spec's values", g.ok, g.detail)
	}

	rep.Notes = append(rep.Notes, fmt.Sprintf("%d mirrored records, %d shared constants compared; C side: %d declarations extracted from tproxy.c + ebpf_sync_defs.h", len(pairs), len(cps)+1, len(needed)))
	rep.Assumptions = append(rep.Assumptions,
		"layout engine: kernel headers are absent; __u8/__u16/__u32/__u64/__be*/bool are supplied by a fixed typedef prelude (assumed equal to the kernel's definitions)",
		"layout engine: Go layouts are those of gc on amd64 (types.SizesFor); little-endian host assumed equal to the bpfel target byte order",
		"layout engine: ground equalities decided by evaluation, not by an SMT solver; bpf2go-generated types of the real build are not in the tree and not compared (they are derived from the same C by bpf2go at build time)")
	return rep
}

func constantInt64(c *types.Const) (int64, bool) {
	s := c.Val().ExactString()
	v, err := strconv.ParseInt(s, 10, 64)
	return v, err == nil
}

// varInitValue evaluates the constant initialiser of a package-level variable.
func varInitValue(file, name string) (int64, error) {
	fset := token.NewFileSet()
	f, err := parser.ParseFile(fset, file, nil, 0)
	if err != nil {
		return 0, err
	}
	for _, d := range f.Decls {
		gd, ok := d.(*ast.GenDecl)
		if !ok || gd.Tok != token.VAR {
			continue
		}
		for _, sp := range gd.Specs {
			vs := sp.(*ast.ValueSpec)
			for i, n := range vs.Names {
				if n.Name == name && i < len(vs.Values) {
					var b bytes.Buffer
					if err := formatNode(&b, fset, vs.Values[i]); err != nil {
						return 0, err
					}
					tv, err := types.Eval(fset, nil, token.NoPos, b.String())
					if err != nil {
						return 0, err
					}
					v, err := strconv.ParseInt(tv.Value.ExactString(), 10, 64)
					return v, err
				}
			}
		}
	}
	return 0, fmt.Errorf("variable %s not found in %s", name, file)
}

// handWrittenPairs parses control/bpf_utils.go (real build only) and returns its hand-mirrored struct
// types and the PARAM literal's anonymous struct type, built as go/types structs.
func handWrittenPairs(ctl *types.Package) ([]layoutPair, error) {
	file := filepath.Join(repoDir, "control/bpf_utils.go")
	fset := token.NewFileSet()
	f, err := parser.ParseFile(fset, file, nil, 0)
	if err != nil {
		return nil, err
	}
	var out []layoutPair
	conv := func(e ast.Expr) (types.Type, error) { return astToType(e, ctl) }
	for _, d := range f.Decls {
		gd, ok := d.(*ast.GenDecl)
		if !ok || gd.Tok != token.TYPE {
			continue
		}
		for _, sp := range gd.Specs {
			ts := sp.(*ast.TypeSpec)
			st, ok := ts.Type.(*ast.StructType)
			if !ok {
				continue
			}
			cn := ""
			switch ts.Name.Name {
			case "_bpfLpmKey":
				cn = "struct lpm_key"
			case "bpfRoutingResult":
				cn = "struct routing_result"
			default:
				continue
			}
			t, err := conv(st)
			if err != nil {
				return nil, fmt.Errorf("bpf_utils.go %s: %v", ts.Name.Name, err)
			}
			out = append(out, layoutPair{goName: ts.Name.Name + "(bpf_utils.go)", cName: cn, goType: t, where: "control/bpf_utils.go (real build, hand-written)"})
		}
	}
	// PARAM literal
	var paramErr error
	ast.Inspect(f, func(n ast.Node) bool {
		kv, ok := n.(*ast.KeyValueExpr)
		if !ok {
			return true
		}
		bl, ok := kv.Key.(*ast.BasicLit)
		if !ok || bl.Value != `"PARAM"` {
			return true
		}
		cl, ok := kv.Value.(*ast.CompositeLit)
		if !ok {
			return true
		}
		st, ok := cl.Type.(*ast.StructType)
		if !ok {
			return true
		}
		t, err := conv(st)
		if err != nil {
			paramErr = err
			return false
		}
		out = append(out, layoutPair{goName: "PARAM-literal(bpf_utils.go)", cName: "struct dae_param", goType: t, where: "control/bpf_utils.go PARAM literal rewritten into .rodata"})
		return false
	})
	if paramErr != nil {
		return nil, paramErr
	}
	if len(out) < 3 {
		return nil, fmt.Errorf("bpf_utils.go: expected _bpfLpmKey, bpfRoutingResult and the PARAM literal, found %d", len(out))
	}
	return out, nil
}

func astToType(e ast.Expr, pkg *types.Package) (types.Type, error) {
	switch x := e.(type) {
	case *ast.Ident:
		if x.Name == "byte" {
			return types.Typ[types.Uint8], nil
		}
		if obj := types.Universe.Lookup(x.Name); obj != nil {
			if tn, ok := obj.(*types.TypeName); ok {
				return tn.Type(), nil
			}
		}
		if obj := pkg.Scope().Lookup(x.Name); obj != nil {
			return obj.Type(), nil
		}
		return nil, fmt.Errorf("unknown type %s", x.Name)
	case *ast.ArrayType:
		if x.Len == nil {
			return nil, fmt.Errorf("slice in mirrored struct")
		}
		bl, ok := x.Len.(*ast.BasicLit)
		if !ok {
			return nil, fmt.Errorf("non-literal array length")
		}
		n, err := strconv.ParseInt(bl.Value, 0, 64)
		if err != nil {
			return nil, err
		}
		et, err := astToType(x.Elt, pkg)
		if err != nil {
			return nil, err
		}
		return types.NewArray(et, n), nil
	case *ast.StructType:
		var fields []*types.Var
		for _, fl := range x.Fields.List {
			ft, err := astToType(fl.Type, pkg)
			if err != nil {
				return nil, err
			}
			for _, n := range fl.Names {
				fields = append(fields, types.NewField(token.NoPos, pkg, n.Name, ft, false))
			}
		}
		return types.NewStruct(fields, nil), nil
	case *ast.SelectorExpr:
		if id, ok := x.X.(*ast.Ident); ok && id.Name == "structs" && x.Sel.Name == "HostLayout" {
			return types.NewStruct(nil, nil), nil
		}
	}
	return nil, fmt.Errorf("unsupported type expression %T", e)
}

func formatNode(b *bytes.Buffer, fset *token.FileSet, n ast.Node) error {
	return printer.Fprint(b, fset, n)
}

type genResult struct {
	name   string
	ok     bool
	detail string
}

// checkGenerated runs the repository's generator on the repository's spec in a scratch module and compares
// what it writes with the checked-in files.
func checkGenerated() []genResult {
	files := []string{"common/consts/ebpf_generated.go", "control/kern/ebpf_sync_defs.h"}
	bad := func(msg string) []genResult {
		var rs []genResult
		for _, f := range files {
			rs = append(rs, genResult{f, false, msg})
		}
		return rs
	}
	spec, err := os.ReadFile(filepath.Join(repoDir, "common/consts/ebpf_sync_spec.json"))
	if err != nil {
		return bad(err.Error())
	}
	out, err := runGenerator(spec)
	if err != nil {
		return bad(err.Error())
	}
	var rs []genResult
	for _, f := range files {
		want, ok := out[f]
		have, err2 := os.ReadFile(filepath.Join(repoDir, f))
		switch {
		case !ok:
			rs = append(rs, genResult{f, false, "the generator wrote no such file"})
		case err2 != nil:
			rs = append(rs, genResult{f, false, err2.Error()})
		case !bytes.Equal(want, have):
			rs = append(rs, genResult{f, false, "generator output differs from the checked-in file: " + firstDiff(string(want), string(have))})
		default:
			rs = append(rs, genResult{f, true, ""})
		}
	}
	return rs
}

// runGenerator runs the repository's generator (its current source) in a scratch module on the given spec and
// returns what it writes.
func runGenerator(spec []byte) (map[string][]byte, error) {
	files := []string{"common/consts/ebpf_generated.go", "control/kern/ebpf_sync_defs.h"}
	tmp, err := os.MkdirTemp("", "govc-gen-")
	if err != nil {
		return nil, err
	}
	defer os.RemoveAll(tmp)
	genDir := "cmd/generators/gen_ebpf_sync"
	for _, d := range []string{"common/consts", "control/kern", genDir} {
		os.MkdirAll(filepath.Join(tmp, d), 0o755)
	}
	os.WriteFile(filepath.Join(tmp, "go.mod"), []byte("module scratch\n\ngo 1.22\n"), 0o644)
	if err := os.WriteFile(filepath.Join(tmp, "common/consts/ebpf_sync_spec.json"), spec, 0o644); err != nil {
		return nil, err
	}
	ents, err := os.ReadDir(filepath.Join(repoDir, genDir))
	if err != nil {
		return nil, err
	}
	for _, en := range ents {
		if strings.HasSuffix(en.Name(), ".go") && !strings.HasSuffix(en.Name(), "_test.go") {
			b, err := os.ReadFile(filepath.Join(repoDir, genDir, en.Name()))
			if err != nil {
				return nil, err
			}
			if err := os.WriteFile(filepath.Join(tmp, genDir, en.Name()), b, 0o644); err != nil {
				return nil, err
			}
		}
	}
	cmd := exec.Command("go", "run", "./"+genDir)
	cmd.Dir = tmp
	cmd.Env = append(os.Environ(), "GOFLAGS=-mod=mod", "GOWORK=off")
	if out, err := cmd.CombinedOutput(); err != nil {
		return nil, fmt.Errorf("the generator does not run: %v: %s", err, firstLines(string(out), 5))
	}
	res := map[string][]byte{}
	for _, f := range files {
		if b, err := os.ReadFile(filepath.Join(tmp, f)); err == nil {
			res[f] = b
		}
	}
	return res, nil
}

func firstLines(s string, n int) string {
	ls := strings.Split(strings.TrimSpace(s), "\n")
	if len(ls) > n {
		ls = ls[:n]
	}
	return strings.Join(ls, " | ")
}

func firstDiff(gen, have string) string {
	a, b := strings.Split(gen, "\n"), strings.Split(have, "\n")
	for i := 0; i < len(a) || i < len(b); i++ {
		var x, y string
		if i < len(a) {
			x = a[i]
		}
		if i < len(b) {
			y = b[i]
		}
		if x != y {
			return fmt.Sprintf("line %d: generator writes %q, file has %q", i+1, x, y)
		}
	}
	return "(no line differs)"
}

package main

import (
	"encoding/json"
	"fmt"
	"os"
	"os/exec"
	"path/filepath"
	"regexp"
	"strings"
	"time"
)

type replayAdapter struct {
	Prefix string `json:"obligation_prefix"`
	Pkg    string `json:"pkg"`
	File   string `json:"file"`
	Test   string `json:"test"`
	Tags   string `json:"tags"`
}

func loadAdapters() []replayAdapter {
	b, err := os.ReadFile(filepath.Join(verifDir(), "replay", "adapters.json"))
	if err != nil {
		return nil
	}
	var out []replayAdapter
	json.Unmarshal(b, &out)
	return out
}

var reModelConst = regexp.MustCompile(`\(define-fun \|?([^\s|]+)\|? \(\) (Int|Bool)\s+([^\n]*)\)`)

// modelScalars extracts scalar constants (parameters and fresh values) from a z3 model.
func modelScalars(model string) map[string]string {
	out := map[string]string{}
	for _, m := range reModelConst.FindAllStringSubmatch(model, -1) {
		v := strings.TrimSpace(m[3])
		v = strings.TrimSuffix(v, ")")
		v = strings.ReplaceAll(strings.ReplaceAll(strings.ReplaceAll(v, "(- ", "-"), ")", ""), " ", "")
		out[m[1]] = v
	}
	return out
}

// tryReplay runs the replay adapter registered for the obligation (if any) against the real code,
// injected with `go test -overlay` so that nothing is written into the repository.
func tryReplay(w *World, rf *replayFile, o ObResult) bool {
	var ad *replayAdapter
	short := o.Name
	for _, a := range loadAdapters() {
		a := a
		if strings.HasPrefix(short, a.Prefix) {
			ad = &a
			break
		}
	}
	scal := modelScalars(o.Model)
	for k, v := range scal {
		if strings.HasPrefix(k, "p$") {
			rf.Inputs = append(rf.Inputs, k+"="+v)
		}
	}
	if ad == nil {
		rf.Replay = "no replay adapter registered for this obligation"
		return false
	}
	tmp, err := os.MkdirTemp("", "govc-replay-")
	if err != nil {
		rf.Replay = "cannot create temp dir: " + err.Error()
		return false
	}
	defer os.RemoveAll(tmp)
	rel := strings.TrimPrefix(ad.Pkg, "./")
	target := filepath.Join(repoDir, rel, "zz_verif_replay_test.go")
	ov := map[string]map[string]string{"Replace": {target: filepath.Join(verifDir(), "replay", "adapters", ad.File)}}
	ovb, _ := json.Marshal(ov)
	ovf := filepath.Join(tmp, "overlay.json")
	os.WriteFile(ovf, ovb, 0o644)
	mj, _ := json.Marshal(scal)
	args := []string{"test", "-overlay", ovf, "-vet=off", "-count=1", "-timeout", "120s", "-run", "^" + ad.Test + "$"}
	if ad.Tags != "" {
		args = append(args, "-tags", ad.Tags)
	}
	args = append(args, ad.Pkg)
	cmd := exec.Command("go", args...)
	cmd.Dir = repoDir
	cmd.Env = append(os.Environ(), "VERIF_MODEL_JSON="+string(mj), "GOFLAGS=-mod=mod")
	t0 := time.Now()
	out, err := cmd.CombinedOutput()
	txt := string(out)
	rf.ReplayLog = truncate(txt, 6000)
	if strings.Contains(txt, "REPLAY-VIOLATION") || (err != nil && strings.Contains(txt, "panic:")) {
		rf.Replay = fmt.Sprintf("reproduced on the real code by %s (%s, %.1fs)", ad.Test, ad.File, time.Since(t0).Seconds())
		return true
	}
	if err != nil && !strings.Contains(txt, "--- FAIL") {
		rf.Replay = "replay adapter could not be built or run: " + err.Error()
		return false
	}
	rf.Replay = fmt.Sprintf("replay adapter %s ran but did not reproduce a violation", ad.Test)
	return false
}

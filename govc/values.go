package main

import (
	"fmt"
	"go/types"
	"math/big"
	"regexp"
	"strings"
)

// Value model: Go values are represented Go-side as trees whose leaves are SMT terms.
type Value interface{ isValue() }

type Sc struct{ T Term }         // scalar: Int, Bool, Str, Real, or SMT array (Go array of scalars)
type StructV struct{ F []Value } // parallel to the fields of the struct type
type SliceV struct{ Base, Off, Len, Cap Term }
type TupleV struct{ E []Value }
type ArrayV struct{ E []Value } // small fixed array with composite elements

func (Sc) isValue()      {}
func (StructV) isValue() {}
func (SliceV) isValue()  {}
func (TupleV) isValue()  {}
func (ArrayV) isValue()  {}

const maxArrayV = 8

func arrayVLen(t types.Type) (int, types.Type, bool) {
	a, ok := t.Underlying().(*types.Array)
	if !ok || isOpaque(t) || a.Len() > maxArrayV || shapeKindOf(a.Elem()) == kScalar {
		return 0, nil, false
	}
	return int(a.Len()), a.Elem(), true
}

type shapeKind int

const (
	kScalar shapeKind = iota
	kStruct
	kSlice
	kTuple
	kArrayOfComposite
)

// opaque named types: represented as an uninterpreted Int-sorted scalar.
var opaqueTypes = map[string]bool{
	"net/netip.Addr":     true,
	"net/netip.Prefix":   true,
	"net/netip.AddrPort": true,
	"time.Time":          true,
	"sync.Mutex":         false,
}

var reByteRune = regexp.MustCompile(`\b(byte|rune)\b`)

// typeKey is the canonical name of a type; the predeclared aliases byte and rune are spelled uint8 and
// int32 so that identical types share one heap family.
func typeKey(t types.Type) string {
	s := types.TypeString(types.Unalias(t), func(p *types.Package) string { return p.Path() })
	if strings.Contains(s, "byte") || strings.Contains(s, "rune") {
		s = reByteRune.ReplaceAllStringFunc(s, func(m string) string {
			if m == "byte" {
				return "uint8"
			}
			return "int32"
		})
	}
	return s
}

func isOpaque(t types.Type) bool {
	if n, ok := t.(*types.Named); ok {
		return opaqueTypes[typeKey(n)]
	}
	if a, ok := t.(*types.Alias); ok {
		return isOpaque(types.Unalias(a))
	}
	return false
}

func shapeKindOf(t types.Type) shapeKind {
	if isOpaque(t) {
		return kScalar
	}
	switch u := t.Underlying().(type) {
	case *types.Struct:
		return kStruct
	case *types.Slice:
		return kSlice
	case *types.Tuple:
		return kTuple
	case *types.Array:
		if shapeKindOf(u.Elem()) != kScalar {
			return kArrayOfComposite
		}
		return kScalar
	}
	return kScalar
}

// scalarSort gives the SMT sort of a scalar-shaped Go type.
func scalarSort(t types.Type) string {
	if isOpaque(t) {
		return SInt
	}
	switch u := t.Underlying().(type) {
	case *types.Basic:
		switch {
		case u.Info()&types.IsBoolean != 0:
			return SBool
		case u.Info()&types.IsString != 0:
			return SStr
		case u.Info()&types.IsFloat != 0:
			return SReal
		case u.Info()&types.IsComplex != 0:
			return SInt
		}
		return SInt
	case *types.Array:
		es := scalarSort(u.Elem())
		return arrSort(SInt, es)
	}
	return SInt // pointers, maps, chans, funcs, interfaces, unsafe.Pointer
}

// intRange returns (lo, hi, true) for sized integer types.
func intRange(t types.Type) (lo, hi *big.Int, ok bool) {
	if isOpaque(t) {
		return nil, nil, false
	}
	b, isb := t.Underlying().(*types.Basic)
	if !isb || b.Info()&types.IsInteger == 0 {
		return nil, nil, false
	}
	var w uint
	signed := b.Info()&types.IsUnsigned == 0
	switch b.Kind() {
	case types.Int8, types.Uint8:
		w = 8
	case types.Int16, types.Uint16:
		w = 16
	case types.Int32, types.Uint32:
		w = 32
	case types.Int64, types.Uint64, types.Int, types.Uint, types.Uintptr:
		w = 64
	case types.UntypedInt, types.UntypedRune:
		return nil, nil, false
	default:
		return nil, nil, false
	}
	if signed {
		lo = new(big.Int).Neg(pow2(w - 1))
		hi = new(big.Int).Sub(pow2(w-1), big.NewInt(1))
	} else {
		lo = big.NewInt(0)
		hi = new(big.Int).Sub(pow2(w), big.NewInt(1))
	}
	return lo, hi, true
}

func intWidth(t types.Type) (w uint, signed bool, ok bool) {
	b, isb := t.Underlying().(*types.Basic)
	if !isb || b.Info()&types.IsInteger == 0 {
		return 0, false, false
	}
	signed = b.Info()&types.IsUnsigned == 0
	switch b.Kind() {
	case types.Int8, types.Uint8:
		w = 8
	case types.Int16, types.Uint16:
		w = 16
	case types.Int32, types.Uint32:
		w = 32
	default:
		w = 64
	}
	return w, signed, true
}

// rangeFact returns a Bool term constraining v to its Go type's range (true if none).
func rangeFact(v Value, t types.Type) Term {
	switch x := v.(type) {
	case Sc:
		if lo, hi, ok := intRange(t); ok {
			return and(le(bigLit(lo), x.T), le(x.T, bigLit(hi)))
		}
		if a, ok := t.Underlying().(*types.Array); ok && !isOpaque(t) {
			if lo, hi, ok := intRange(a.Elem()); ok && a.Len() <= 64 {
				var cs []Term
				for i := int64(0); i < a.Len(); i++ {
					e := sel(x.T, intLit(i))
					cs = append(cs, le(bigLit(lo), e), le(e, bigLit(hi)))
				}
				return and(cs...)
			} else if ok {
				q := Term{"qi!", SInt}
				e := sel(x.T, q)
				return mk(SBool, "(forall ((qi! Int)) (! (and (<= %s %s) (<= %s %s)) :pattern (%s)))", bigLit(lo).S, e.S, e.S, bigLit(hi).S, e.S)
			}
		}
		return tTrue
	case StructV:
		st := t.Underlying().(*types.Struct)
		var cs []Term
		for i, f := range x.F {
			cs = append(cs, rangeFact(f, st.Field(i).Type()))
		}
		return and(cs...)
	case SliceV:
		return and(le(intLit(0), x.Off), le(intLit(0), x.Len), le(x.Len, x.Cap),
			le(x.Cap, Term{"1152921504606846976", SInt}),
			implies(eq(x.Base, intLit(0)), and(eq(x.Cap, intLit(0)), eq(x.Off, intLit(0)))))
	case TupleV:
		tt := t.(*types.Tuple)
		var cs []Term
		for i, f := range x.E {
			cs = append(cs, rangeFact(f, tt.At(i).Type()))
		}
		return and(cs...)
	case ArrayV:
		_, et, _ := arrayVLen(t)
		var cs []Term
		for _, f := range x.E {
			cs = append(cs, rangeFact(f, et))
		}
		return and(cs...)
	}
	return tTrue
}

func zeroValue(t types.Type) Value {
	switch shapeKindOf(t) {
	case kScalar:
		return Sc{zeroOfSort(scalarSort(t))}
	case kStruct:
		st := t.Underlying().(*types.Struct)
		var fs []Value
		for i := 0; i < st.NumFields(); i++ {
			fs = append(fs, zeroValue(st.Field(i).Type()))
		}
		return StructV{fs}
	case kSlice:
		z := intLit(0)
		return SliceV{z, z, z, z}
	case kTuple:
		tt := t.(*types.Tuple)
		var es []Value
		for i := 0; i < tt.Len(); i++ {
			es = append(es, zeroValue(tt.At(i).Type()))
		}
		return TupleV{es}
	case kArrayOfComposite:
		if n, et, ok := arrayVLen(t); ok {
			es := make([]Value, n)
			for i := range es {
				es[i] = zeroValue(et)
			}
			return ArrayV{es}
		}
	}
	return Sc{intLit(0)}
}

// iteValue merges two values of the same shape.
func iteValue(c Term, a, b Value) Value {
	switch x := a.(type) {
	case Sc:
		return Sc{ite(c, x.T, b.(Sc).T)}
	case StructV:
		y := b.(StructV)
		fs := make([]Value, len(x.F))
		for i := range x.F {
			fs[i] = iteValue(c, x.F[i], y.F[i])
		}
		return StructV{fs}
	case SliceV:
		y := b.(SliceV)
		return SliceV{ite(c, x.Base, y.Base), ite(c, x.Off, y.Off), ite(c, x.Len, y.Len), ite(c, x.Cap, y.Cap)}
	case TupleV:
		y := b.(TupleV)
		es := make([]Value, len(x.E))
		for i := range x.E {
			es[i] = iteValue(c, x.E[i], y.E[i])
		}
		return TupleV{es}
	case ArrayV:
		y := b.(ArrayV)
		es := make([]Value, len(x.E))
		for i := range x.E {
			es[i] = iteValue(c, x.E[i], y.E[i])
		}
		return ArrayV{es}
	}
	panic("iteValue")
}

// flatten lists the leaf terms of a value.
func flatten(v Value) []Term {
	switch x := v.(type) {
	case Sc:
		return []Term{x.T}
	case StructV:
		var out []Term
		for _, f := range x.F {
			out = append(out, flatten(f)...)
		}
		return out
	case SliceV:
		return []Term{x.Base, x.Off, x.Len, x.Cap}
	case TupleV:
		var out []Term
		for _, f := range x.E {
			out = append(out, flatten(f)...)
		}
		return out
	case ArrayV:
		var out []Term
		for _, f := range x.E {
			out = append(out, flatten(f)...)
		}
		return out
	}
	return nil
}

// leafSorts lists the leaf sorts of a type in flatten order.
func leafSorts(t types.Type) []string {
	switch shapeKindOf(t) {
	case kScalar:
		return []string{scalarSort(t)}
	case kStruct:
		st := t.Underlying().(*types.Struct)
		var out []string
		for i := 0; i < st.NumFields(); i++ {
			out = append(out, leafSorts(st.Field(i).Type())...)
		}
		return out
	case kSlice:
		return []string{SInt, SInt, SInt, SInt}
	case kTuple:
		tt := t.(*types.Tuple)
		var out []string
		for i := 0; i < tt.Len(); i++ {
			out = append(out, leafSorts(tt.At(i).Type())...)
		}
		return out
	case kArrayOfComposite:
		if n, et, ok := arrayVLen(t); ok {
			var out []string
			for i := 0; i < n; i++ {
				out = append(out, leafSorts(et)...)
			}
			return out
		}
	}
	return []string{SInt}
}

// unflatten rebuilds a value of type t from leaf terms.
func unflatten(t types.Type, leaves []Term) (Value, []Term) {
	switch shapeKindOf(t) {
	case kStruct:
		st := t.Underlying().(*types.Struct)
		var fs []Value
		for i := 0; i < st.NumFields(); i++ {
			var f Value
			f, leaves = unflatten(st.Field(i).Type(), leaves)
			fs = append(fs, f)
		}
		return StructV{fs}, leaves
	case kSlice:
		return SliceV{leaves[0], leaves[1], leaves[2], leaves[3]}, leaves[4:]
	case kTuple:
		tt := t.(*types.Tuple)
		var es []Value
		for i := 0; i < tt.Len(); i++ {
			var f Value
			f, leaves = unflatten(tt.At(i).Type(), leaves)
			es = append(es, f)
		}
		return TupleV{es}, leaves
	case kArrayOfComposite:
		if n, et, ok := arrayVLen(t); ok {
			var es []Value
			for i := 0; i < n; i++ {
				var f Value
				f, leaves = unflatten(et, leaves)
				es = append(es, f)
			}
			return ArrayV{es}, leaves
		}
	}
	return Sc{leaves[0]}, leaves[1:]
}

// eqValue is Go's == on two values of type t.
func eqValue(a, b Value, t types.Type) Term {
	switch x := a.(type) {
	case Sc:
		y := b.(Sc)
		if arr, ok := t.Underlying().(*types.Array); ok && !isOpaque(t) {
			if arr.Len() <= 64 {
				var cs []Term
				for i := int64(0); i < arr.Len(); i++ {
					cs = append(cs, eq(sel(x.T, intLit(i)), sel(y.T, intLit(i))))
				}
				return and(cs...)
			}
			return mk(SBool, "(forall ((qi! Int)) (=> (and (<= 0 qi!) (< qi! %d)) (= (select %s qi!) (select %s qi!))))", arr.Len(), x.T.S, y.T.S)
		}
		return eq(x.T, y.T)
	case StructV:
		y := b.(StructV)
		st := t.Underlying().(*types.Struct)
		var cs []Term
		for i := range x.F {
			cs = append(cs, eqValue(x.F[i], y.F[i], st.Field(i).Type()))
		}
		return and(cs...)
	case SliceV:
		// only comparison with nil is legal in Go
		y := b.(SliceV)
		return eq(x.Base, y.Base)
	case TupleV:
		y := b.(TupleV)
		tt := t.(*types.Tuple)
		var cs []Term
		for i := range x.E {
			cs = append(cs, eqValue(x.E[i], y.E[i], tt.At(i).Type()))
		}
		return and(cs...)
	case ArrayV:
		y := b.(ArrayV)
		_, et, _ := arrayVLen(t)
		var cs []Term
		for i := range x.E {
			cs = append(cs, eqValue(x.E[i], y.E[i], et))
		}
		return and(cs...)
	}
	panic("eqValue")
}

func sanitize(s string) string {
	var sb strings.Builder
	for _, c := range s {
		switch {
		case c >= 'a' && c <= 'z', c >= 'A' && c <= 'Z', c >= '0' && c <= '9', c == '_', c == '.', c == '$':
			sb.WriteRune(c)
		case c == '*':
			sb.WriteString("ptr.")
		case c == '[':
			sb.WriteString("_L")
		case c == ']':
			sb.WriteString("R_")
		case c == '/':
			sb.WriteString("~")
		default:
			sb.WriteString("_")
		}
	}
	return sb.String()
}

func fmtValue(v Value) string {
	switch x := v.(type) {
	case Sc:
		return x.T.S
	case StructV:
		var s []string
		for _, f := range x.F {
			s = append(s, fmtValue(f))
		}
		return "{" + strings.Join(s, ", ") + "}"
	case SliceV:
		return fmt.Sprintf("slice(%s,%s,%s,%s)", x.Base.S, x.Off.S, x.Len.S, x.Cap.S)
	case TupleV:
		var s []string
		for _, f := range x.E {
			s = append(s, fmtValue(f))
		}
		return "(" + strings.Join(s, ", ") + ")"
	}
	return "?"
}

package main

func runExtra(name string, cfg *PropConfig, tier string, w *World) *FuncReport { return nil }

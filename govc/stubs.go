package main

func cmdCheck(args []string) int  { return 2 }
func cmdSweep(args []string)      {}
func cmdReplay(args []string) int { return 2 }

package main

func runExtra(name string, cfg *PropConfig, tier string, w *World) *FuncReport { return nil }

func tryReplay(w *World, rf *replayFile, o ObResult) bool { return false }

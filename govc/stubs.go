package main

func runLayout(cfg *PropConfig, w *World) *FuncReport { return nil }

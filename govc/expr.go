package main

// Contract expression language: lexer, AST and Pratt parser.
//
// Grammar (Gobra flavoured, Go-like):
//   e ::= forall x T, y T :: e | exists x T :: e
//       | e <==> e | e ==> e | e || e | e && e | !e
//       | e (==|!=|<|<=|>|>=) e | e (+|-|*|/|%|&|'|'|^|<<|>>) e | -e
//       | c ? a : b
//       | e.f | e[i] | e[i:j] | f(e,...) | old(e) | ident | pkg.Ident
//       | intlit | 'c' | "str" | true | false | nil | (e)

import (
	"fmt"
	"strconv"
	"strings"
	"unicode"
)

type tokKind int

const (
	tEOF tokKind = iota
	tIdent
	tInt
	tStr
	tChar
	tOp
)

type etok struct {
	k   tokKind
	s   string
	pos int
}

func lexExpr(src string) ([]etok, error) {
	var out []etok
	i := 0
	ops := []string{"<==>", "==>", "::", "&&", "||", "==", "!=", "<=", ">=", "<<", ">>", "&^",
		"+", "-", "*", "/", "%", "&", "|", "^", "<", ">", "!", "(", ")", "[", "]", ".", ",", "?", ":", "{", "}"}
	for i < len(src) {
		c := src[i]
		if c == ' ' || c == '\t' || c == '\n' || c == '\r' {
			i++
			continue
		}
		if unicode.IsLetter(rune(c)) || c == '_' || c == '$' || c == '#' {
			j := i + 1
			for j < len(src) && (unicode.IsLetter(rune(src[j])) || unicode.IsDigit(rune(src[j])) || src[j] == '_' || src[j] == '$' || src[j] == '#') {
				j++
			}
			out = append(out, etok{tIdent, src[i:j], i})
			i = j
			continue
		}
		if unicode.IsDigit(rune(c)) {
			j := i + 1
			for j < len(src) && (unicode.IsDigit(rune(src[j])) || unicode.IsLetter(rune(src[j])) || src[j] == '_') {
				j++
			}
			out = append(out, etok{tInt, src[i:j], i})
			i = j
			continue
		}
		if c == '"' {
			j := i + 1
			for j < len(src) && src[j] != '"' {
				if src[j] == '\\' {
					j++
				}
				j++
			}
			if j >= len(src) {
				return nil, fmt.Errorf("unterminated string at %d", i)
			}
			s, err := strconv.Unquote(src[i : j+1])
			if err != nil {
				return nil, fmt.Errorf("bad string literal %s", src[i:j+1])
			}
			out = append(out, etok{tStr, s, i})
			i = j + 1
			continue
		}
		if c == '\'' {
			j := i + 1
			for j < len(src) && src[j] != '\'' {
				if src[j] == '\\' {
					j++
				}
				j++
			}
			if j >= len(src) {
				return nil, fmt.Errorf("unterminated char at %d", i)
			}
			r, _, _, err := strconv.UnquoteChar(src[i+1:j], '\'')
			if err != nil {
				return nil, fmt.Errorf("bad char literal %s", src[i:j+1])
			}
			out = append(out, etok{tChar, strconv.Itoa(int(r)), i})
			i = j + 1
			continue
		}
		matched := false
		for _, op := range ops {
			if strings.HasPrefix(src[i:], op) {
				out = append(out, etok{tOp, op, i})
				i += len(op)
				matched = true
				break
			}
		}
		if !matched {
			return nil, fmt.Errorf("unexpected character %q at %d in %q", c, i, src)
		}
	}
	out = append(out, etok{tEOF, "", len(src)})
	return out, nil
}

// Expr AST
type Expr interface{ String() string }

type (
	EIdent struct{ Name string }
	EInt   struct{ V string } // decimal big integer text
	EStr   struct{ V string }
	EBool  struct{ V bool }
	ENil   struct{}
	EUn    struct {
		Op string
		X  Expr
	}
	EBin struct {
		Op   string
		X, Y Expr
	}
	ECond struct{ C, A, B Expr }
	ESel  struct {
		X Expr
		F string
	}
	EIndex struct{ X, I Expr }
	ESlice struct {
		X      Expr
		Lo, Hi Expr // may be nil
	}
	ECall struct {
		Fn   Expr
		Args []Expr
	}
	EQuant struct {
		Forall   bool
		Vars     []QVar
		Triggers [][]Expr
		Body     Expr
	}
)

type QVar struct {
	Name string
	Type string // "int", "bool", "ref", "string" or a Go type name (ints treated as Int)
}

func (e *EIdent) String() string { return e.Name }
func (e *EInt) String() string   { return e.V }
func (e *EStr) String() string   { return strconv.Quote(e.V) }
func (e *EBool) String() string  { return fmt.Sprint(e.V) }
func (e *ENil) String() string   { return "nil" }
func (e *EUn) String() string    { return e.Op + e.X.String() }
func (e *EBin) String() string {
	return "(" + e.X.String() + " " + e.Op + " " + e.Y.String() + ")"
}
func (e *ECond) String() string {
	return "(" + e.C.String() + " ? " + e.A.String() + " : " + e.B.String() + ")"
}
func (e *ESel) String() string   { return e.X.String() + "." + e.F }
func (e *EIndex) String() string { return e.X.String() + "[" + e.I.String() + "]" }
func (e *ESlice) String() string {
	lo, hi := "", ""
	if e.Lo != nil {
		lo = e.Lo.String()
	}
	if e.Hi != nil {
		hi = e.Hi.String()
	}
	return e.X.String() + "[" + lo + ":" + hi + "]"
}
func (e *ECall) String() string {
	var a []string
	for _, x := range e.Args {
		a = append(a, x.String())
	}
	return e.Fn.String() + "(" + strings.Join(a, ", ") + ")"
}
func (e *EQuant) String() string {
	q := "exists"
	if e.Forall {
		q = "forall"
	}
	var vs []string
	for _, v := range e.Vars {
		vs = append(vs, v.Name+" "+v.Type)
	}
	return "(" + q + " " + strings.Join(vs, ", ") + " :: " + e.Body.String() + ")"
}

type exprParser struct {
	toks []etok
	p    int
	src  string
}

func parseExpr(src string) (Expr, error) {
	toks, err := lexExpr(src)
	if err != nil {
		return nil, err
	}
	ps := &exprParser{toks: toks, src: src}
	e, err := ps.expr(0)
	if err != nil {
		return nil, err
	}
	if ps.peek().k != tEOF {
		return nil, fmt.Errorf("trailing tokens at %d (%q) in %q", ps.peek().pos, ps.peek().s, src)
	}
	return e, nil
}

func (ps *exprParser) peek() etok { return ps.toks[ps.p] }
func (ps *exprParser) next() etok {
	t := ps.toks[ps.p]
	if ps.p < len(ps.toks)-1 {
		ps.p++
	}
	return t
}
func (ps *exprParser) isOp(s string) bool {
	t := ps.peek()
	return t.k == tOp && t.s == s
}
func (ps *exprParser) expect(s string) error {
	if !ps.isOp(s) {
		return fmt.Errorf("expected %q at %d, got %q in %q", s, ps.peek().pos, ps.peek().s, ps.src)
	}
	ps.next()
	return nil
}

// binding powers (left)
var binPrec = map[string]int{
	"<==>": 1, "==>": 2, "?": 3, "||": 4, "&&": 5,
	"==": 6, "!=": 6, "<": 6, "<=": 6, ">": 6, ">=": 6,
	"+": 7, "-": 7, "|": 7, "^": 7,
	"*": 8, "/": 8, "%": 8, "&": 8, "<<": 8, ">>": 8, "&^": 8,
}

func (ps *exprParser) expr(minPrec int) (Expr, error) {
	lhs, err := ps.unary()
	if err != nil {
		return nil, err
	}
	for {
		t := ps.peek()
		if t.k != tOp {
			break
		}
		prec, ok := binPrec[t.s]
		if !ok || prec < minPrec {
			break
		}
		ps.next()
		switch t.s {
		case "?":
			a, err := ps.expr(0)
			if err != nil {
				return nil, err
			}
			if err := ps.expect(":"); err != nil {
				return nil, err
			}
			b, err := ps.expr(prec)
			if err != nil {
				return nil, err
			}
			lhs = &ECond{lhs, a, b}
		case "==>", "<==>":
			// right associative
			rhs, err := ps.expr(prec)
			if err != nil {
				return nil, err
			}
			lhs = &EBin{t.s, lhs, rhs}
		default:
			rhs, err := ps.expr(prec + 1)
			if err != nil {
				return nil, err
			}
			lhs = &EBin{t.s, lhs, rhs}
		}
	}
	return lhs, nil
}

func (ps *exprParser) unary() (Expr, error) {
	t := ps.peek()
	if t.k == tOp && (t.s == "!" || t.s == "-" || t.s == "^") {
		ps.next()
		x, err := ps.unary()
		if err != nil {
			return nil, err
		}
		return &EUn{t.s, x}, nil
	}
	if t.k == tIdent && (t.s == "forall" || t.s == "exists") {
		ps.next()
		var vars []QVar
		for {
			n := ps.next()
			if n.k != tIdent {
				return nil, fmt.Errorf("expected bound variable name at %d in %q", n.pos, ps.src)
			}
			ty := "int"
			ptr := ""
			for ps.isOp("*") {
				ps.next()
				ptr += "*"
			}
			if ps.peek().k == tIdent {
				ty = ptr + ps.next().s
				// qualified type pkg.T
				if ps.isOp(".") {
					ps.next()
					ty += "." + ps.next().s
				}
			}
			vars = append(vars, QVar{n.s, ty})
			if ps.isOp(",") {
				ps.next()
				continue
			}
			break
		}
		var trigs [][]Expr
		for ps.isOp("{") {
			ps.next()
			var grp []Expr
			for {
				te, err := ps.expr(0)
				if err != nil {
					return nil, err
				}
				grp = append(grp, te)
				if ps.isOp(",") {
					ps.next()
					continue
				}
				break
			}
			if err := ps.expect("}"); err != nil {
				return nil, err
			}
			trigs = append(trigs, grp)
		}
		if err := ps.expect("::"); err != nil {
			return nil, err
		}
		body, err := ps.expr(0)
		if err != nil {
			return nil, err
		}
		return &EQuant{t.s == "forall", vars, trigs, body}, nil
	}
	return ps.postfix()
}

func (ps *exprParser) postfix() (Expr, error) {
	x, err := ps.primary()
	if err != nil {
		return nil, err
	}
	for {
		switch {
		case ps.isOp("."):
			ps.next()
			n := ps.next()
			if n.k != tIdent {
				return nil, fmt.Errorf("expected field name at %d in %q", n.pos, ps.src)
			}
			x = &ESel{x, n.s}
		case ps.isOp("["):
			ps.next()
			var lo Expr
			if !ps.isOp(":") {
				lo, err = ps.expr(0)
				if err != nil {
					return nil, err
				}
			}
			if ps.isOp(":") {
				ps.next()
				var hi Expr
				if !ps.isOp("]") {
					hi, err = ps.expr(0)
					if err != nil {
						return nil, err
					}
				}
				if err := ps.expect("]"); err != nil {
					return nil, err
				}
				x = &ESlice{x, lo, hi}
			} else {
				if err := ps.expect("]"); err != nil {
					return nil, err
				}
				x = &EIndex{x, lo}
			}
		case ps.isOp("("):
			ps.next()
			var args []Expr
			for !ps.isOp(")") {
				a, err := ps.expr(0)
				if err != nil {
					return nil, err
				}
				args = append(args, a)
				if ps.isOp(",") {
					ps.next()
				} else {
					break
				}
			}
			if err := ps.expect(")"); err != nil {
				return nil, err
			}
			x = &ECall{x, args}
		default:
			return x, nil
		}
	}
}

func (ps *exprParser) primary() (Expr, error) {
	t := ps.next()
	switch t.k {
	case tIdent:
		switch t.s {
		case "true":
			return &EBool{true}, nil
		case "false":
			return &EBool{false}, nil
		case "nil":
			return &ENil{}, nil
		}
		return &EIdent{t.s}, nil
	case tInt:
		s := strings.ReplaceAll(t.s, "_", "")
		v, err := strconv.ParseUint(s, 0, 64)
		if err != nil {
			// maybe a big decimal
			for _, c := range s {
				if c < '0' || c > '9' {
					return nil, fmt.Errorf("bad integer literal %q", t.s)
				}
			}
			return &EInt{s}, nil
		}
		return &EInt{strconv.FormatUint(v, 10)}, nil
	case tChar:
		return &EInt{t.s}, nil
	case tStr:
		return &EStr{t.s}, nil
	case tOp:
		if t.s == "(" {
			e, err := ps.expr(0)
			if err != nil {
				return nil, err
			}
			if err := ps.expect(")"); err != nil {
				return nil, err
			}
			return e, nil
		}
	}
	return nil, fmt.Errorf("unexpected token %q at %d in %q", t.s, t.pos, ps.src)
}

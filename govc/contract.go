package main

// Contract files: comment-only Go files (//go:build verif) holding //@ lines.

import (
	"bufio"
	"fmt"
	"os"
	"path/filepath"
	"regexp"
	"strconv"
	"strings"
)

type Clause struct {
	E    Expr
	Src  string
	File string
	Line int
}

type Macro struct {
	Name   string
	Params []QVar
	Body   Expr
	Src    string
}

type GhostFn struct {
	Name   string
	Params []QVar
	Ret    string
}

// AtCall: `at call <callee>#<k> assert|assume-not <expr>`: an assertion evaluated in the caller's scope
// immediately before the k-th call (in block order) whose callee key ends with the given name.
type AtCall struct {
	Callee string
	Ord    int
	Assume bool // the clause is assumed, not proved: it binds a ghost name to the value a call returned (reported)
	After  bool // evaluated after the call (result bound to `result`), old() still refers to function entry
	C      Clause
	Used   bool
}

// AtReturn: an assertion at the k-th return statement (source order) with locals in scope.
type AtReturn struct {
	Ord  int
	C    Clause
	Used bool
	Pre  bool // `before-defers`: evaluated before the deferred calls run (named results read from their cells)
}

type LoopContract struct {
	Ordinal    int
	Exits      []Clause // asserted on every edge leaving the loop
	Entries    []Clause // asserted on every edge entering the loop from outside (not assumed, not kept)
	Backs      []Clause // asserted on every back edge (another iteration starts), body locals in scope; not assumed
	Invariants []Clause
	Modifies   []Expr // extra heap locations havocked (besides syntactic stores)
	Decreases  *Clause
}

type FuncContract struct {
	PkgPath        string
	Name           string // "(*T).M", "T.M", "f", "f$1"
	Requires       []Clause
	Ensures        []Clause
	AssumedEnsures []Clause // postconditions callers may use but the body is not checked against (reported)
	Modifies       []Expr
	ModAll         bool // modifies *
	Ghostfns       []GhostFn
	Assumes        []Clause // definitional axioms (reported as assumptions)
	Lets           []Macro
	Loops          map[int]*LoopContract
	Trusted        bool // do not verify body; contract assumed (reported)
	Pure           bool // no heap effect; result is a function of args and read heaps
	ValuePure      bool // pure and independent of the heap
	NoPanic        bool // obligation: panics unreachable (default true)
	MayPanic       bool
	CheckAsserts   bool
	Lemmas         []Clause // assert-style lemmas proved at function entry under requires
	AtCalls        []AtCall // assertions attached to call sites of the body
	AtReturns      []AtReturn
	NoNilCheck     bool // nil-dereference obligations are assumed instead of proved (reported)
	TrustFrame     bool // the modifies clause is assumed, not checked against the body (reported)
	AnchorsOnly    bool // only at-call assertions and postconditions are proved; safety checks and callee preconditions are assumed (reported)
	DynNoEffect    bool // calls through function values are assumed not to touch modelled memory (reported)
	Witness        []string
	File           string
	Line           int
	Used           bool
}

type ExternDecl struct {
	Name     string // fully qualified e.g. net/netip.AddrFrom16 or (net/netip.Addr).As16
	Kind     string // pure | noeffect | havoc
	Ensures  []Clause
	Requires []Clause
	Modifies []Expr
	Params   []string // optional names for args (a0,a1.. by default)
	File     string
	Line     int
}

type ContractSet struct {
	Funcs       map[string]*FuncContract // key pkgpath + "::" + name
	Externs     map[string]*ExternDecl
	Macros      map[string]*Macro   // package-level macros: key pkgpath::name and also global "::name"
	SpecFns     map[string]*GhostFn // package-level uninterpreted spec functions: key pkgpath::name
	GhostFields map[string]string   // typeKey + "::" + name -> type ("string", "int", "bool")
	Files       []string
}

func NewContractSet() *ContractSet {
	return &ContractSet{Funcs: map[string]*FuncContract{}, Externs: map[string]*ExternDecl{}, Macros: map[string]*Macro{}, SpecFns: map[string]*GhostFn{}, GhostFields: map[string]string{}}
}

var reMacroHead = regexp.MustCompile(`^([A-Za-z_][A-Za-z0-9_]*)\s*\(([^)]*)\)\s*=\s*(.*)$`)
var reGhostFn = regexp.MustCompile(`^([A-Za-z_][A-Za-z0-9_]*)\s*\(([^)]*)\)\s*(\*?[A-Za-z_][A-Za-z0-9_.]*)$`)

// parseParamsTyped allows Go-ish types containing brackets, e.g. "b []byte".
func parseParamsTyped(s string) ([]QVar, error) {
	s = strings.TrimSpace(s)
	if s == "" {
		return nil, nil
	}
	var out []QVar
	for _, p := range splitTopLevel(s, ',') {
		f := strings.Fields(p)
		switch len(f) {
		case 1:
			out = append(out, QVar{f[0], "int"})
		case 2:
			out = append(out, QVar{f[0], f[1]})
		default:
			return nil, fmt.Errorf("bad parameter %q", p)
		}
	}
	return out, nil
}

func parseParams(s string) ([]QVar, error) {
	s = strings.TrimSpace(s)
	if s == "" {
		return nil, nil
	}
	var out []QVar
	for _, p := range strings.Split(s, ",") {
		f := strings.Fields(p)
		switch len(f) {
		case 1:
			out = append(out, QVar{f[0], "int"})
		case 2:
			out = append(out, QVar{f[0], f[1]})
		default:
			return nil, fmt.Errorf("bad parameter %q", p)
		}
	}
	return out, nil
}

// LoadContractFile parses one contract file. pkgPath is the import path of the
// package the file belongs to.
func (cs *ContractSet) LoadContractFile(path, pkgPath string) error {
	f, err := os.Open(path)
	if err != nil {
		return err
	}
	defer f.Close()
	cs.Files = append(cs.Files, path)
	sc := bufio.NewScanner(f)
	sc.Buffer(make([]byte, 1<<20), 1<<20)
	var cur *FuncContract
	var curLoop *LoopContract
	var curExt *ExternDecl
	lineNo := 0
	pending := ""
	pendingLine := 0
	flush := func(line string, ln int) error {
		line = strings.TrimSpace(line)
		if line == "" {
			return nil
		}
		kw := line
		rest := ""
		if i := strings.IndexAny(line, " \t"); i >= 0 {
			kw = line[:i]
			rest = strings.TrimSpace(line[i+1:])
		}
		mkClause := func() (Clause, error) {
			e, err := parseExpr(rest)
			if err != nil {
				return Clause{}, fmt.Errorf("%s:%d: %v", path, ln, err)
			}
			return Clause{E: e, Src: rest, File: filepath.Base(path), Line: ln}, nil
		}
		switch kw {
		case "func":
			cur = &FuncContract{PkgPath: pkgPath, Name: rest, Loops: map[int]*LoopContract{}, File: path, Line: ln}
			curLoop = nil
			curExt = nil
			key := pkgPath + "::" + rest
			if _, dup := cs.Funcs[key]; dup {
				return fmt.Errorf("%s:%d: duplicate contract for %s", path, ln, rest)
			}
			cs.Funcs[key] = cur
		case "extern":
			f := strings.Fields(rest)
			if len(f) < 2 {
				return fmt.Errorf("%s:%d: extern needs name and kind", path, ln)
			}
			curExt = &ExternDecl{Name: f[0], Kind: f[1], File: path, Line: ln}
			if len(f) > 2 {
				curExt.Params = f[2:]
			}
			cs.Externs[f[0]] = curExt
			cur = nil
			curLoop = nil
		case "macro":
			m := reMacroHead.FindStringSubmatch(rest)
			if m == nil {
				return fmt.Errorf("%s:%d: bad macro", path, ln)
			}
			ps, err := parseParams(m[2])
			if err != nil {
				return fmt.Errorf("%s:%d: %v", path, ln, err)
			}
			e, err := parseExpr(m[3])
			if err != nil {
				return fmt.Errorf("%s:%d: %v", path, ln, err)
			}
			mc := &Macro{Name: m[1], Params: ps, Body: e, Src: rest}
			cs.Macros[pkgPath+"::"+m[1]] = mc
		case "ghostfield": // ghostfield <type key> <name> <type>
			f := strings.Fields(rest)
			if len(f) != 3 {
				return fmt.Errorf("%s:%d: ghostfield <type> <name> <type>", path, ln)
			}
			cs.GhostFields[f[0]+"::"+f[1]] = f[2]
		case "specfn":
			m := reGhostFn.FindStringSubmatch(rest)
			if m == nil {
				return fmt.Errorf("%s:%d: bad specfn", path, ln)
			}
			ps, err := parseParamsTyped(m[2])
			if err != nil {
				return fmt.Errorf("%s:%d: %v", path, ln, err)
			}
			cs.SpecFns[pkgPath+"::"+m[1]] = &GhostFn{m[1], ps, m[3]}
		case "assumed-ensures":
			if cur == nil {
				return fmt.Errorf("%s:%d: assumed-ensures outside func", path, ln)
			}
			c, err := mkClause()
			if err != nil {
				return err
			}
			cur.AssumedEnsures = append(cur.AssumedEnsures, c)
		case "back":
			c, err := mkClause()
			if err != nil {
				return err
			}
			if curLoop == nil {
				return fmt.Errorf("%s:%d: back outside loop", path, ln)
			}
			curLoop.Backs = append(curLoop.Backs, c)
		case "entry":
			c, err := mkClause()
			if err != nil {
				return err
			}
			if curLoop == nil {
				return fmt.Errorf("%s:%d: entry outside loop", path, ln)
			}
			curLoop.Entries = append(curLoop.Entries, c)
		case "exit":
			c, err := mkClause()
			if err != nil {
				return err
			}
			if curLoop == nil {
				return fmt.Errorf("%s:%d: exit outside loop", path, ln)
			}
			curLoop.Exits = append(curLoop.Exits, c)
		case "requires", "ensures", "invariant", "assume", "lemma", "decreases":
			c, err := mkClause()
			if err != nil {
				return err
			}
			if curExt != nil {
				switch kw {
				case "requires":
					curExt.Requires = append(curExt.Requires, c)
				case "ensures":
					curExt.Ensures = append(curExt.Ensures, c)
				default:
					return fmt.Errorf("%s:%d: %s not allowed in extern", path, ln, kw)
				}
				return nil
			}
			if cur == nil {
				return fmt.Errorf("%s:%d: %s outside func", path, ln, kw)
			}
			switch kw {
			case "requires":
				cur.Requires = append(cur.Requires, c)
			case "ensures":
				cur.Ensures = append(cur.Ensures, c)
			case "assume":
				cur.Assumes = append(cur.Assumes, c)
			case "lemma":
				cur.Lemmas = append(cur.Lemmas, c)
			case "invariant":
				if curLoop == nil {
					return fmt.Errorf("%s:%d: invariant outside loop", path, ln)
				}
				curLoop.Invariants = append(curLoop.Invariants, c)
			case "decreases":
				if curLoop == nil {
					return fmt.Errorf("%s:%d: decreases outside loop", path, ln)
				}
				cc := c
				curLoop.Decreases = &cc
			}
		case "modifies":
			if curExt != nil {
				for _, part := range splitTopLevel(rest, ',') {
					e, err := parseExpr(part)
					if err != nil {
						return fmt.Errorf("%s:%d: %v", path, ln, err)
					}
					curExt.Modifies = append(curExt.Modifies, e)
				}
				return nil
			}
			if cur == nil {
				return fmt.Errorf("%s:%d: modifies outside func", path, ln)
			}
			if rest == "*" {
				if curLoop != nil {
					return fmt.Errorf("%s:%d: modifies * in loop", path, ln)
				}
				cur.ModAll = true
				return nil
			}
			if rest == "nothing" {
				return nil
			}
			for _, part := range splitTopLevel(rest, ',') {
				e, err := parseExpr(part)
				if err != nil {
					return fmt.Errorf("%s:%d: %v", path, ln, err)
				}
				if curLoop != nil {
					curLoop.Modifies = append(curLoop.Modifies, e)
				} else {
					cur.Modifies = append(cur.Modifies, e)
				}
			}
		case "at": // at call <callee>#<k> assert <expr>
			if cur == nil {
				return fmt.Errorf("%s:%d: at outside func", path, ln)
			}
			f := strings.Fields(rest)
			preDefers := false
			if len(f) >= 5 && f[0] == "return" && f[2] == "before-defers" && f[3] == "assert" {
				preDefers = true
				f = append(f[:2:2], f[3:]...)
			}
			if len(f) >= 4 && f[0] == "return" && f[2] == "assert" {
				// at return <k> assert <expr>: checked at the k-th return statement in source order, with the
				// function's locals in scope
				ord, aerr := strconv.Atoi(f[1])
				if aerr != nil || ord < 1 {
					return fmt.Errorf("%s:%d: bad return ordinal", path, ln)
				}
				src := strings.TrimSpace(rest[strings.Index(rest, " assert ")+len(" assert "):])
				e, err := parseExpr(src)
				if err != nil {
					return fmt.Errorf("%s:%d: %v", path, ln, err)
				}
				cur.AtReturns = append(cur.AtReturns, AtReturn{Ord: ord, Pre: preDefers, C: Clause{E: e, Src: src, File: filepath.Base(path), Line: ln}})
				break
			}
			if len(f) < 4 || f[0] != "call" || (f[2] != "assert" && f[2] != "assert-after" && f[2] != "assume-after") {
				return fmt.Errorf("%s:%d: expected `at call <callee>#<k> assert|assert-after <expr>`", path, ln)
			}
			name := f[1]
			ord := 1
			if i := strings.LastIndex(name, "#"); i >= 0 {
				ord, _ = strconv.Atoi(name[i+1:])
				name = name[:i]
			}
			after := f[2] == "assert-after" || f[2] == "assume-after"
			isAssume := f[2] == "assume-after"
			kwd := " " + f[2] + " "
			src := strings.TrimSpace(rest[strings.Index(rest, kwd)+len(kwd):])
			e, err := parseExpr(src)
			if err != nil {
				return fmt.Errorf("%s:%d: %v", path, ln, err)
			}
			cur.AtCalls = append(cur.AtCalls, AtCall{Callee: name, Ord: ord, After: after, Assume: isAssume, C: Clause{E: e, Src: src, File: filepath.Base(path), Line: ln}})
		case "ghostfn":
			if cur == nil {
				return fmt.Errorf("%s:%d: ghostfn outside func", path, ln)
			}
			m := reGhostFn.FindStringSubmatch(rest)
			if m == nil {
				return fmt.Errorf("%s:%d: bad ghostfn", path, ln)
			}
			ps, err := parseParams(m[2])
			if err != nil {
				return fmt.Errorf("%s:%d: %v", path, ln, err)
			}
			cur.Ghostfns = append(cur.Ghostfns, GhostFn{m[1], ps, m[3]})
		case "let":
			if cur == nil {
				return fmt.Errorf("%s:%d: let outside func", path, ln)
			}
			m := reMacroHead.FindStringSubmatch(rest)
			if m == nil {
				return fmt.Errorf("%s:%d: bad let", path, ln)
			}
			ps, err := parseParams(m[2])
			if err != nil {
				return fmt.Errorf("%s:%d: %v", path, ln, err)
			}
			e, err := parseExpr(m[3])
			if err != nil {
				return fmt.Errorf("%s:%d: %v", path, ln, err)
			}
			cur.Lets = append(cur.Lets, Macro{Name: m[1], Params: ps, Body: e, Src: rest})
		case "loop":
			if cur == nil {
				return fmt.Errorf("%s:%d: loop outside func", path, ln)
			}
			k, err := strconv.Atoi(rest)
			if err != nil {
				return fmt.Errorf("%s:%d: bad loop ordinal", path, ln)
			}
			curLoop = &LoopContract{Ordinal: k}
			cur.Loops[k] = curLoop
		case "trusted":
			cur.Trusted = true
		case "pure":
			cur.Pure = true
		case "vpure":
			cur.Pure = true
			cur.ValuePure = true
		case "maypanic":
			cur.MayPanic = true
		case "checkasserts":
			cur.CheckAsserts = true
		case "nonilcheck":
			cur.NoNilCheck = true
		case "trustframe":
			cur.TrustFrame = true
		case "anchorsonly":
			cur.AnchorsOnly = true
			cur.NoNilCheck = true
		case "dyncalls":
			if rest != "noeffect" {
				return fmt.Errorf("%s:%d: only `dyncalls noeffect` is supported", path, ln)
			}
			cur.DynNoEffect = true
		case "witness":
			cur.Witness = append(cur.Witness, rest)
		default:
			return fmt.Errorf("%s:%d: unknown keyword %q", path, ln, kw)
		}
		return nil
	}
	for sc.Scan() {
		lineNo++
		line := strings.TrimSpace(sc.Text())
		if !strings.HasPrefix(line, "//@") {
			continue
		}
		body := strings.TrimSpace(line[3:])
		if i := strings.Index(body, " //"); i >= 0 && !strings.Contains(body[:i], "\"") {
			body = strings.TrimSpace(body[:i])
		}
		if pending != "" {
			body = pending + " " + body
		} else {
			pendingLine = lineNo
		}
		if strings.HasSuffix(body, "\\") {
			pending = strings.TrimSuffix(body, "\\")
			continue
		}
		pending = ""
		if err := flush(body, pendingLine); err != nil {
			return err
		}
	}
	return sc.Err()
}

func splitTopLevel(s string, sep byte) []string {
	var out []string
	depth := 0
	start := 0
	for i := 0; i < len(s); i++ {
		switch s[i] {
		case '(', '[':
			depth++
		case ')', ']':
			depth--
		default:
			if s[i] == sep && depth == 0 {
				out = append(out, strings.TrimSpace(s[start:i]))
				start = i + 1
			}
		}
	}
	out = append(out, strings.TrimSpace(s[start:]))
	return out
}

package main

import (
	"encoding/json"
	"fmt"
	"go/ast"
	"go/importer"
	"go/parser"
	"go/token"
	"go/types"
	"os"
	"path/filepath"
	"regexp"
	"strconv"
	"strings"
)

type specNV struct {
	Name  string `json:"name"`
	Value uint32 `json:"value"`
}
type specDoc struct {
	MatchTypes []string `json:"match_types"`
	L4Proto    []specNV `json:"l4_proto"`
	IpVersion  []specNV `json:"ip_version"`
	Outbound   []specNV `json:"outbound"`
}

var reCDefine = regexp.MustCompile(`(?m)^#define\s+(\w+)\s+(0[xX][0-9A-Fa-f]+|\d+)\s*$`)
var reCEnumEnt = regexp.MustCompile(`(?m)^\s*(\w+)\s*=\s*(0[xX][0-9A-Fa-f]+|\d+)\s*,`)

func camelOfUpperSnake(s string) string {
	var b strings.Builder
	for _, p := range strings.Split(s, "_") {
		if p == "" {
			continue
		}
		b.WriteString(strings.ToUpper(p[:1]) + strings.ToLower(p[1:]))
	}
	return b.String()
}

// checkGeneratorAgreement runs the tree's generator on a renumbered copy of the tree's spec (values that are not
// list positions, match types in reversed order) and evaluates both outputs: the Go file through go/types, the C
// header by reading its #define / enum entries. For every name of the spec both must carry the spec's value.
func checkGeneratorAgreement() []genResult {
	lists := []string{"match_types", "l4_proto", "ip_version", "outbound"}
	bad := func(msg string) []genResult {
		var rs []genResult
		for _, l := range lists {
			rs = append(rs, genResult{l, false, msg})
		}
		return rs
	}
	raw, err := os.ReadFile(filepath.Join(repoDir, "common/consts/ebpf_sync_spec.json"))
	if err != nil {
		return bad(err.Error())
	}
	var spec specDoc
	if err := json.Unmarshal(raw, &spec); err != nil {
		return bad(err.Error())
	}
	// renumber
	for i, j := 0, len(spec.MatchTypes)-1; i < j; i, j = i+1, j-1 {
		spec.MatchTypes[i], spec.MatchTypes[j] = spec.MatchTypes[j], spec.MatchTypes[i]
	}
	for i := range spec.L4Proto {
		spec.L4Proto[i].Value = 2*spec.L4Proto[i].Value + 5
	}
	for i := range spec.IpVersion {
		spec.IpVersion[i].Value = 3*spec.IpVersion[i].Value + 4
	}
	for i := range spec.Outbound {
		spec.Outbound[i].Value = (spec.Outbound[i].Value*7 + 3) % 256
	}
	pb, _ := json.MarshalIndent(spec, "", "  ")
	out, err := runGenerator(pb)
	if err != nil {
		return bad(err.Error())
	}
	goSrc, ok1 := out["common/consts/ebpf_generated.go"]
	hSrc, ok2 := out["control/kern/ebpf_sync_defs.h"]
	if !ok1 || !ok2 {
		return bad("the generator did not write both files")
	}
	// Go side
	fset := token.NewFileSet()
	f, err := parser.ParseFile(fset, "ebpf_generated.go", goSrc, 0)
	if err != nil {
		return bad("generated Go does not parse: " + err.Error())
	}
	conf := types.Config{Importer: importer.Default(), Error: func(error) {}}
	pkg, _ := conf.Check("consts", fset, []*ast.File{f}, nil)
	goVal := func(name string) (int64, bool) {
		if pkg == nil {
			return 0, false
		}
		c, _ := pkg.Scope().Lookup(name).(*types.Const)
		if c == nil {
			return 0, false
		}
		return constantInt64(c)
	}
	// C side
	cVals := map[string]int64{}
	for _, m := range reCDefine.FindAllStringSubmatch(string(hSrc), -1) {
		v, _ := strconv.ParseInt(m[2], 0, 64)
		cVals[m[1]] = v
	}
	for _, m := range reCEnumEnt.FindAllStringSubmatch(string(hSrc), -1) {
		v, _ := strconv.ParseInt(m[2], 0, 64)
		cVals[m[1]] = v
	}
	type ent struct {
		cName, goName string
		want          int64
	}
	per := map[string][]ent{}
	for i, n := range spec.MatchTypes {
		per["match_types"] = append(per["match_types"], ent{"MatchType_" + n, "MatchType_" + n, int64(i)})
	}
	for _, nv := range spec.L4Proto {
		per["l4_proto"] = append(per["l4_proto"], ent{"L4ProtoType_" + nv.Name, "L4ProtoType_" + nv.Name, int64(nv.Value)})
	}
	for _, nv := range spec.IpVersion {
		per["ip_version"] = append(per["ip_version"], ent{"IpVersionType_" + nv.Name, "IpVersion_" + nv.Name, int64(nv.Value)})
	}
	for _, nv := range spec.Outbound {
		per["outbound"] = append(per["outbound"], ent{"OUTBOUND_" + nv.Name, "Outbound" + camelOfUpperSnake(nv.Name), int64(nv.Value)})
	}
	var rs []genResult
	for _, l := range lists {
		var probs []string
		for _, e := range per[l] {
			cv, okc := cVals[e.cName]
			gv, okg := goVal(e.goName)
			switch {
			case !okc:
				probs = append(probs, fmt.Sprintf("C header lacks %s", e.cName))
			case !okg:
				probs = append(probs, fmt.Sprintf("Go file lacks %s", e.goName))
			case cv != e.want || gv != e.want:
				probs = append(probs, fmt.Sprintf("%s: spec %d, C %d, Go %d", e.cName, e.want, cv, gv))
			}
		}
		if len(per[l]) == 0 {
			probs = append(probs, "the spec has no "+l)
		}
		rs = append(rs, genResult{l, len(probs) == 0, strings.Join(probs, "; ")})
	}
	return rs
}

package main

import (
	"encoding/json"
	"fmt"
	"go/types"
	"os"
	"path/filepath"
	"sort"
	"strconv"
	"strings"
	"sync"
	"time"

	"golang.org/x/tools/go/packages"
	"golang.org/x/tools/go/ssa"
	"golang.org/x/tools/go/ssa/ssautil"
)

var repoDir = func() string {
	if d := os.Getenv("VERIF_REPO"); d != "" {
		return d
	}
	return "/repo"
}()

const modPath = "github.com/daeuniverse/dae"

func loadWorld(patterns []string, overlay map[string][]byte) (*World, error) {
	if !strings.HasPrefix(os.Getenv("PATH"), "/opt/veriftools/go1.26.8/bin:") {
		os.Setenv("PATH", "/opt/veriftools/go1.26.8/bin:"+os.Getenv("PATH"))
	}
	os.Setenv("GOFLAGS", "-mod=mod")
	os.Setenv("GOPROXY", "off")
	os.Setenv("GOSUMDB", "off")
	os.Setenv("GOTOOLCHAIN", "local")
	env := os.Environ()
	if overlay == nil {
		// the production encoders of control/bpf_utils.go replace their stubs (see realslice.go)
		ov, _, err := realSliceOverlay()
		if err != nil {
			return nil, err
		}
		overlay = ov
	}
	cfg := &packages.Config{
		Mode:       packages.LoadAllSyntax,
		Dir:        repoDir,
		BuildFlags: []string{"-tags=verif,dae_stub_ebpf"},
		Env:        env,
		Overlay:    overlay,
	}
	pkgs, err := packages.Load(cfg, patterns...)
	if err != nil {
		return nil, err
	}
	nerr := 0
	packages.Visit(pkgs, nil, func(p *packages.Package) {
		for _, e := range p.Errors {
			if strings.HasPrefix(p.PkgPath, modPath) {
				fmt.Fprintln(os.Stderr, "load error:", e)
				nerr++
			}
		}
	})
	if nerr > 0 {
		return nil, fmt.Errorf("%d type/load errors in packages under verification", nerr)
	}
	prog, _ := ssautil.AllPackages(pkgs, ssa.InstantiateGenerics|ssa.GlobalDebug)
	w := &World{Prog: prog, Fset: prog.Fset, Contracts: NewContractSet(), Pkgs: map[string]*ssa.Package{}, TypesPkgs: map[string]*types.Package{}, Aliases: map[string]map[string]string{}}
	packages.Visit(pkgs, nil, func(p *packages.Package) {
		if !strings.HasPrefix(p.PkgPath, modPath) {
			return
		}
		al := map[string]string{}
		for _, f := range p.Syntax {
			for _, im := range f.Imports {
				if im.Name != nil && im.Name.Name != "_" && im.Name.Name != "." {
					al[im.Name.Name] = strings.Trim(im.Path.Value, "\"")
				}
			}
		}
		w.Aliases[p.PkgPath] = al
	})
	// build only the packages of the module (dependencies are consulted through types only)
	var wg sync.WaitGroup
	for _, sp := range prog.AllPackages() {
		if strings.HasPrefix(sp.Pkg.Path(), modPath) {
			w.Pkgs[sp.Pkg.Path()] = sp
			wg.Add(1)
			go func(sp *ssa.Package) { defer wg.Done(); sp.Build() }(sp)
		}
		w.TypesPkgs[sp.Pkg.Path()] = sp.Pkg
	}
	wg.Wait()
	// contract files
	seen := map[string]bool{}
	packages.Visit(pkgs, nil, func(p *packages.Package) {
		if !strings.HasPrefix(p.PkgPath, modPath) || seen[p.PkgPath] {
			return
		}
		seen[p.PkgPath] = true
		rel := strings.TrimPrefix(strings.TrimPrefix(p.PkgPath, modPath), "/")
		cf := filepath.Join(repoDir, rel, "zz_verif_contracts.go")
		if _, err2 := os.Stat(cf); err2 == nil {
			if err3 := w.Contracts.LoadContractFile(cf, p.PkgPath); err3 != nil && err == nil {
				err = err3
			}
		}
	})
	if err != nil {
		return nil, err
	}
	// global extern declarations shipped with the verifier
	gx := filepath.Join(verifDir(), "spec", "externs.contracts")
	if _, err2 := os.Stat(gx); err2 == nil {
		if err3 := w.Contracts.LoadContractFile(gx, ""); err3 != nil {
			return nil, err3
		}
	}
	return w, nil
}

func verifDir() string {
	if d := os.Getenv("VERIF_DIR"); d != "" {
		return d
	}
	return "/verif"
}

// findFunc locates the SSA function for a contract name in a package.
func (w *World) findFunc(pkgPath, name string) *ssa.Function {
	sp := w.Pkgs[pkgPath]
	if sp == nil {
		return nil
	}
	var all []*ssa.Function
	for _, m := range sp.Members {
		switch x := m.(type) {
		case *ssa.Function:
			all = append(all, x)
		case *ssa.Type:
			for _, t := range []types.Type{x.Type(), types.NewPointer(x.Type())} {
				ms := w.Prog.MethodSets.MethodSet(t)
				for i := 0; i < ms.Len(); i++ {
					if f := w.Prog.MethodValue(ms.At(i)); f != nil && f.Pkg == sp && f.Synthetic == "" {
						all = append(all, f)
					}
				}
			}
		}
	}
	var visit func(f *ssa.Function) *ssa.Function
	visit = func(f *ssa.Function) *ssa.Function {
		if contractName(f) == name {
			return f
		}
		for _, a := range f.AnonFuncs {
			if r := visit(a); r != nil {
				return r
			}
		}
		return nil
	}
	for _, f := range all {
		if r := visit(f); r != nil {
			return r
		}
	}
	return nil
}

type ObResult struct {
	Name   string `json:"name"`
	Desc   string `json:"clause"`
	Pos    string `json:"pos,omitempty"`
	Status string `json:"status"`
	Solver string `json:"solver"`
	Ms     int64  `json:"ms"`
	Quant  bool   `json:"quantified"`
	Model  string `json:"-"`
	Output string `json:"-"`
	Query  string `json:"-"`
}

type FuncReport struct {
	Label       string
	PkgPath     string
	Name        string
	Blocks      int
	Loops       int
	Obligations []ObResult
	Notes       []string
	Assumptions []string
	Vacuous     []string
	Unstatable  []string // clauses naming a local that is not in scope where they now land: undecided, not violated
	Err         error
	EncodeMs    int64
}

func (w *World) VerifyFunc(fn *ssa.Function, fc *FuncContract, timeoutS int) *FuncReport {
	e := newEnc(w, fn, fc)
	rep := &FuncReport{Label: e.fnLabel, Name: contractName(fn), Blocks: len(fn.Blocks)}
	if fn.Pkg != nil {
		rep.PkgPath = fn.Pkg.Pkg.Path()
	}
	t0 := time.Now()
	if err := func() (err error) {
		defer func() {
			if r := recover(); r != nil {
				if os.Getenv("GOVC_TRACE") != "" {
					panic(r)
				}
				err = fmt.Errorf("%s: internal error while encoding: %v", e.fnLabel, r)
			}
		}()
		return e.Encode()
	}(); err != nil {
		rep.Err = err
		return rep
	}
	rep.EncodeMs = time.Since(t0).Milliseconds()
	rep.Loops = len(e.loopList)
	rep.Notes = e.notes
	rep.Unstatable = e.unstatable
	rep.Assumptions = e.assumed
	var idxs []int
	for i, it := range e.items {
		if it.Kind == itAssert || it.Kind == itProbe {
			idxs = append(idxs, i)
		}
	}
	results := make([]ObResult, len(idxs))
	var wg sync.WaitGroup
	sem := make(chan struct{}, 12)
	for k, i := range idxs {
		wg.Add(1)
		go func(k, i int) {
			defer wg.Done()
			sem <- struct{}{}
			defer func() { <-sem }()
			it := e.items[i]
			q := e.QueryFor(i)
			pos := ""
			if it.Pos.IsValid() {
				pos = fmt.Sprintf("%s:%d", strings.TrimPrefix(it.Pos.Filename, repoDir+"/"), it.Pos.Line)
			}
			if it.Kind == itProbe {
				r := Probe(it.Name, q)
				if d := os.Getenv("GOVC_DUMP_PROBE"); d != "" && strings.Contains(it.Name, d) {
					os.WriteFile("/tmp/probe.smt2", []byte(q), 0o644)
				}
				results[k] = ObResult{Name: it.Name, Desc: "probe", Status: r.Status, Solver: r.Solver, Ms: r.Ms}
				return
			}
			if len(q) > maxQuerySize() {
				results[k] = ObResult{Name: it.Name, Desc: it.Desc, Pos: pos, Status: "oversize", Quant: it.Quant}
				return
			}
			r := Discharge(it.Name, q, timeoutS, true)
			results[k] = ObResult{Name: it.Name, Desc: it.Desc, Pos: pos, Status: r.Status, Solver: r.Solver, Ms: r.Ms, Quant: it.Quant, Model: r.Model, Output: r.Output, Query: q}
		}(k, i)
	}
	wg.Wait()
	for _, r := range results {
		if strings.Contains(r.Name, "/vacuity:") {
			if r.Status == "unsat" {
				rep.Vacuous = append(rep.Vacuous, r.Name)
			}
			continue
		}
		rep.Obligations = append(rep.Obligations, r)
	}
	return rep
}

func main() {
	if len(os.Args) < 2 {
		fmt.Fprintln(os.Stderr, "usage: govc vc <pkg> <func> | govc check <id> [--tier quick|thorough] | govc replay <file>")
		os.Exit(2)
	}
	exit := func(rc int) {
		if workDir != "" {
			os.RemoveAll(workDir)
		}
		os.Exit(rc)
	}
	switch os.Args[1] {
	case "vc":
		cmdVC(os.Args[2:])
		exit(0)
	case "check":
		exit(cmdCheck(os.Args[2:]))
	case "sweep":
		cmdSweep(os.Args[2:])
		exit(0)
	case "replay":
		exit(cmdReplay(os.Args[2:]))
	case "hints":
		exit(cmdHints())
	default:
		fmt.Fprintln(os.Stderr, "unknown command", os.Args[1])
		os.Exit(2)
	}
}

// govc vc <pkg-rel-path> <func> [-dump name] [-t secs]
func cmdVC(args []string) {
	pkgRel := args[0]
	fname := args[1]
	dump := ""
	timeout := 10
	for i := 2; i < len(args); i++ {
		switch args[i] {
		case "-dump":
			dump = args[i+1]
			i++
		case "-t":
			fmt.Sscan(args[i+1], &timeout)
			i++
		}
	}
	t0 := time.Now()
	w, err := loadWorld([]string{"./" + pkgRel}, nil)
	if err != nil {
		fmt.Fprintln(os.Stderr, "UNDECIDED:", err)
		os.Exit(2)
	}
	fmt.Fprintf(os.Stderr, "loaded in %v\n", time.Since(t0))
	pkgPath := modPath + "/" + pkgRel
	fn := w.findFunc(pkgPath, fname)
	if fn == nil {
		fmt.Fprintln(os.Stderr, "function not found:", fname)
		os.Exit(2)
	}
	fc := w.Contracts.Funcs[pkgPath+"::"+fname]
	if dump == "ssa" {
		fn.WriteTo(os.Stdout)
	}
	rep := w.VerifyFunc(fn, fc, timeout)
	printReport(rep, dump)
}

func printReport(rep *FuncReport, dump string) {
	if rep.Err != nil {
		fmt.Println("ERROR:", rep.Err)
		return
	}
	ok := 0
	for _, o := range rep.Obligations {
		mark := "FAIL"
		if o.Status == "unsat" {
			mark = "ok  "
			ok++
		}
		fmt.Printf("%s %-60s %-8s %-7s %5dms  %s  %s\n", mark, o.Name, o.Status, o.Solver, o.Ms, o.Pos, o.Desc)
		if dump != "" && (dump == "all" || strings.Contains(o.Name, dump)) && dump != "ssa" {
			fmt.Println(o.Query)
			fmt.Println("---- solver output")
			fmt.Println(o.Output)
		}
	}
	fmt.Printf("%s: %d/%d obligations discharged, %d blocks, %d loops, encode %dms\n", rep.Label, ok, len(rep.Obligations), rep.Blocks, rep.Loops, rep.EncodeMs)
	for _, v := range rep.Vacuous {
		fmt.Println("VACUOUS:", v)
	}
	sort.Strings(rep.Notes)
	for _, n := range rep.Notes {
		fmt.Println("note:", n)
	}
	for _, n := range rep.Assumptions {
		fmt.Println("assumes:", n)
	}
}

// cmdHints regenerates /verif/solver_hints.json from the evidence files: for every obligation that was not
// discharged by the first-stage solver, the back end that discharged it.
func cmdHints() int {
	files, _ := filepath.Glob(filepath.Join(verifDir(), "evidence", "C*.json"))
	out := map[string]string{}
	var walk func(x interface{})
	walk = func(x interface{}) {
		switch v := x.(type) {
		case map[string]interface{}:
			n, _ := v["name"].(string)
			sv, _ := v["solver"].(string)
			st, _ := v["status"].(string)
			if n != "" && (st == "unsat") && (sv == "z3" || sv == "cvc5") {
				out[n] = sv
			}
			for _, c := range v {
				walk(c)
			}
		case []interface{}:
			for _, c := range v {
				walk(c)
			}
		}
	}
	for _, f := range files {
		b, err := os.ReadFile(f)
		if err != nil {
			continue
		}
		var d interface{}
		if json.Unmarshal(b, &d) == nil {
			walk(d)
		}
	}
	b, _ := json.MarshalIndent(out, "", " ")
	if err := os.WriteFile(filepath.Join(verifDir(), "solver_hints.json"), append(b, '\n'), 0o644); err != nil {
		fmt.Println(err)
		return 2
	}
	fmt.Printf("%d hints written\n", len(out))
	return 0
}

func maxQuerySize() int {
	if v := os.Getenv("GOVC_MAXQ"); v != "" {
		if n, err := strconv.Atoi(v); err == nil {
			return n
		}
	}
	return 2_000_000
}

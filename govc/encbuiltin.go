package main

import (
	"fmt"
	"go/types"
	"strings"

	"golang.org/x/tools/go/ssa"
)

func (e *Enc) builtin(site ssa.Instruction, b *ssa.Builtin, cc *ssa.CallCommon, rt types.Type) Value {
	switch b.Name() {
	case "len":
		a := cc.Args[0]
		switch t := a.Type().Underlying().(type) {
		case *types.Slice:
			return Sc{e.val(a).(SliceV).Len}
		case *types.Basic:
			return Sc{app(SInt, "s.len", e.sc(a))}
		case *types.Array:
			return Sc{intLit(t.Len())}
		case *types.Pointer:
			return Sc{intLit(t.Elem().Underlying().(*types.Array).Len())}
		case *types.Map:
			mi := e.mapInfoOf(a.Type())
			m := e.sc(a)
			if !mi.ok {
				r := e.freshConst("maplen", SInt)
				e.assume(ge(r, intLit(0)), "len >= 0")
				return Sc{r}
			}
			e.assume(e.mapWF(e.cur, mi, m, nil), "map well-formedness")
			return Sc{e.mapLen(e.cur, mi, m)}
		case *types.Chan:
			r := e.freshConst("chanlen", SInt)
			e.assume(ge(r, intLit(0)), "len >= 0")
			return Sc{r}
		}
	case "cap":
		a := cc.Args[0]
		switch t := a.Type().Underlying().(type) {
		case *types.Slice:
			return Sc{e.val(a).(SliceV).Cap}
		case *types.Array:
			return Sc{intLit(t.Len())}
		case *types.Pointer:
			return Sc{intLit(t.Elem().Underlying().(*types.Array).Len())}
		}
		r := e.freshConst("cap", SInt)
		e.assume(ge(r, intLit(0)), "cap >= 0")
		return Sc{r}
	case "append":
		return e.appendBuiltin(site, cc)
	case "copy":
		return e.copyBuiltin(site, cc)
	case "delete":
		mi := e.mapInfoOf(cc.Args[0].Type())
		if !mi.ok {
			e.note("delete on map with composite key")
			e.cur.havocAll()
			return TupleV{}
		}
		e.mapDelete(e.cur, mi, e.sc(cc.Args[0]), e.mapKey(e.val(cc.Args[1]), mi.kt))
		return TupleV{}
	case "min", "max":
		r := e.sc(cc.Args[0])
		for _, a := range cc.Args[1:] {
			x := e.sc(a)
			if b.Name() == "min" {
				r = ite(le(r, x), r, x)
			} else {
				r = ite(ge(r, x), r, x)
			}
		}
		return Sc{r}
	case "clear":
		e.note("clear builtin: havoc")
		e.cur.havocAll()
		return TupleV{}
	case "print", "println":
		return TupleV{}
	case "recover":
		return Sc{intLit(0)}
	case "ssa:wrapnilchk":
		return e.val(cc.Args[0])
	}
	e.note("unsupported builtin " + b.Name())
	e.cur.havocAll()
	return e.freshValue("builtin", rt)
}

// appendBuiltin models append(s, t...) with the deterministic growth rule:
// in place iff len(s)+len(t) <= cap(s).
func (e *Enc) appendBuiltin(site ssa.Instruction, cc *ssa.CallCommon) Value {
	st := cc.Args[0].Type().Underlying().(*types.Slice)
	s := e.val(cc.Args[0]).(SliceV)
	if len(cc.Args) == 1 {
		return s
	}
	var tLen Term
	var tBase, tOff Term
	fromString := false
	var strT Term
	if bt, ok := cc.Args[1].Type().Underlying().(*types.Basic); ok && bt.Info()&types.IsString != 0 {
		fromString = true
		strT = e.sc(cc.Args[1])
		tLen = app(SInt, "s.len", strT)
	} else {
		t := e.val(cc.Args[1]).(SliceV)
		tLen, tBase, tOff = t.Len, t.Base, t.Off
	}
	id := e.nextID()
	newLen := e.define(fmt.Sprintf("app%d.len", id), add(s.Len, tLen))
	grow := e.define(fmt.Sprintf("app%d.grow", id), gt(newLen, s.Cap))
	nb := e.freshConst("appbase", SInt)
	nc := e.freshConst("appcap", SInt)
	e.assume(and(not(eq(nb, intLit(0))), e.freshRefFact(nb), ge(nc, newLen), le(nc, Term{"1152921504606846976", SInt})), "append allocates when growing")
	// a nil/empty append with nothing to add keeps nil: result base 0 only if s.Base = 0 and tLen = 0
	rBase := ite(grow, nb, s.Base)
	rOff := ite(grow, intLit(0), s.Off)
	rCap := ite(grow, nc, s.Cap)
	res := SliceV{e.define(fmt.Sprintf("app%d.base", id), rBase), e.define(fmt.Sprintf("app%d.off", id), rOff), newLen, e.define(fmt.Sprintf("app%d.cap", id), rCap)}

	n, isConst := constInt(tLen)
	if fromString {
		isConst = false
	}
	// In the fresh array, the old elements are copies (stated on the current heap: the array is fresh,
	// nothing could have observed it before).
	paths := e.elemPaths(st.Elem())
	for _, cp := range paths {
		hm := e.cur.get(cp.fam.name, cp.fam.sort)
		e.assume(implies(grow, e.pathCopyFact(hm, cp, s.Len, func(qi Term) Term { return eref(nb, qi) }, func(qi Term) Term { return sliceElemRef(s.Base, s.Off, qi) })), "append copies old elements into the fresh array")
	}
	if isConst && n.IsInt64() && n.Int64() <= 8 && shapeKindOf(st.Elem()) != kArrayOfComposite {
		// copy the n appended elements one by one (strong updates)
		for i := int64(0); i < n.Int64(); i++ {
			src := locOfRef(sliceElemRef(tBase, tOff, intLit(i)), st.Elem())
			v := e.load(e.cur, src)
			dst := locOfRef(sliceElemRef(res.Base, res.Off, add(s.Len, intLit(i))), st.Elem())
			e.store(e.cur, dst, v)
		}
		return res
	}
	// symbolic number of appended elements: new heap version with a quantified description
	for _, cp := range paths {
		old := e.cur.get(cp.fam.name, cp.fam.sort)
		nw := e.freshConst(cp.fam.name+"@app", cp.fam.sort)
		lo := add(res.Off, s.Len)
		var ax Term
		if fromString {
			ax = e.pathUpdateAxiom(nw, old, cp, res.Base, lo, add(res.Off, newLen), nil, func(i string) string {
				return fmt.Sprintf("(s.at %s (- %s %s))", strT.S, i, lo.S)
			})
		} else {
			ax = e.pathUpdateAxiom(nw, old, cp, res.Base, lo, add(res.Off, newLen), func(i string) string {
				return fmt.Sprintf("(eref %s (+ %s (- %s %s)))", tBase.S, tOff.S, i, lo.S)
			}, nil)
		}
		e.assume(ax, "append writes the new elements")
		e.cur.set(cp.fam.name, nw)
	}
	return res
}

func (e *Enc) copyBuiltin(site ssa.Instruction, cc *ssa.CallCommon) Value {
	dst := e.val(cc.Args[0]).(SliceV)
	st := cc.Args[0].Type().Underlying().(*types.Slice)
	var srcLen Term
	var srcVal func(idx string) string
	var srcRef func(idx string) string
	if bt, ok := cc.Args[1].Type().Underlying().(*types.Basic); ok && bt.Info()&types.IsString != 0 {
		s := e.sc(cc.Args[1])
		srcLen = app(SInt, "s.len", s)
		srcVal = func(idx string) string { return fmt.Sprintf("(s.at %s (- %s %s))", s.S, idx, dst.Off.S) }
	} else {
		src := e.val(cc.Args[1]).(SliceV)
		srcLen = src.Len
		srcRef = func(idx string) string {
			return fmt.Sprintf("(eref %s (+ %s (- %s %s)))", src.Base.S, src.Off.S, idx, dst.Off.S)
		}
	}
	n := e.define(fmt.Sprintf("copy%d.n", e.nextID()), ite(le(dst.Len, srcLen), dst.Len, srcLen))
	for _, cp := range e.elemPaths(st.Elem()) {
		old := e.cur.get(cp.fam.name, cp.fam.sort)
		nw := e.freshConst(cp.fam.name+"@copy", cp.fam.sort)
		e.assume(e.pathUpdateAxiom(nw, old, cp, dst.Base, dst.Off, add(dst.Off, n), srcRef, srcVal), "copy writes n elements")
		e.cur.set(cp.fam.name, nw)
	}
	return Sc{n}
}

// ---------------------------------------------------------------------------
// special models: sync, sync/atomic

func (e *Enc) atomicField(recv ssa.Value) (Loc, bool) {
	pt, ok := recv.Type().Underlying().(*types.Pointer)
	if !ok {
		return Loc{}, false
	}
	st, ok := pt.Elem().Underlying().(*types.Struct)
	if !ok {
		return Loc{}, false
	}
	base := e.ptrLoc(recv)
	for i := 0; i < st.NumFields(); i++ {
		if st.Field(i).Name() == "v" {
			return e.fieldLoc(base.Ref, pt.Elem(), i), true
		}
	}
	return Loc{}, false
}

func (e *Enc) specialCall(site ssa.Instruction, key string, cc *ssa.CallCommon, args []Value, rt types.Type) (Value, bool) {
	switch {
	case strings.HasPrefix(key, "(*sync.Mutex)."), strings.HasPrefix(key, "(*sync.RWMutex)."):
		e.assumption("sync.Mutex/RWMutex operations are no-ops (sequential semantics; lock discipline not checked)")
		if strings.HasSuffix(key, "TryLock") || strings.HasSuffix(key, "TryRLock") {
			return Sc{e.freshConst("trylock", SBool)}, true
		}
		return TupleV{}, true
	case strings.HasPrefix(key, "(*sync.WaitGroup)."):
		return TupleV{}, true
	case strings.HasPrefix(key, "(*sync/atomic."):
		e.assumption("sync/atomic operations are plain memory accesses (sequential semantics)")
		return e.atomicMethod(site, key, cc, args, rt)
	case strings.HasPrefix(key, "sync/atomic."):
		e.assumption("sync/atomic operations are plain memory accesses (sequential semantics)")
		return e.atomicFunc(site, key, cc, args, rt)
	}
	return nil, false
}

func (e *Enc) atomicMethod(site ssa.Instruction, key string, cc *ssa.CallCommon, args []Value, rt types.Type) (Value, bool) {
	recv := cc.Args[0]
	l, ok := e.atomicField(recv)
	if !ok {
		return nil, false
	}
	e.nilCheck(e.ptrLoc(recv).Ref, site, "atomic receiver")
	method := key[strings.LastIndex(key, ".")+1:]
	isBool := strings.Contains(key, "atomic.Bool)")
	cur := e.load(e.cur, l)
	e.assume(rangeFact(cur, l.Typ), "atomic cell well typed")
	toV := func(v Value) Value { // Go-level value -> stored representation
		if isBool {
			return Sc{ite(v.(Sc).T, intLit(1), intLit(0))}
		}
		return v
	}
	fromV := func(v Value) Value {
		if isBool {
			return Sc{not(eq(v.(Sc).T, intLit(0)))}
		}
		return v
	}
	switch method {
	case "Load":
		v := e.defineValue(fmt.Sprintf("atomload%d", e.nextID()), fromV(cur))
		e.assume(rangeFact(v, rt), "atomic load well typed")
		return v, true
	case "Store":
		e.store(e.cur, l, toV(args[1]))
		return TupleV{}, true
	case "Swap":
		old := e.defineValue(fmt.Sprintf("atomold%d", e.nextID()), fromV(cur))
		e.store(e.cur, l, toV(args[1]))
		return old, true
	case "Add":
		nv := e.binopAdd(cur.(Sc).T, args[1].(Sc).T, l.Typ)
		d := e.define(fmt.Sprintf("atomadd%d", e.nextID()), nv)
		e.store(e.cur, l, Sc{d})
		return Sc{d}, true
	case "CompareAndSwap":
		oldv := toV(args[1])
		newv := toV(args[2])
		ok := e.define(fmt.Sprintf("cas%d", e.nextID()), eqValue(cur, oldv, l.Typ))
		e.store(e.cur, l, iteValue(ok, newv, cur))
		return Sc{ok}, true
	}
	return nil, false
}

func (e *Enc) binopAdd(a, b Term, t types.Type) Term { return wrapOnce(add(a, b), t) }

func (e *Enc) atomicFunc(site ssa.Instruction, key string, cc *ssa.CallCommon, args []Value, rt types.Type) (Value, bool) {
	name := key[len("sync/atomic."):]
	if len(cc.Args) == 0 {
		return nil, false
	}
	if _, ok := cc.Args[0].Type().Underlying().(*types.Pointer); !ok {
		return nil, false
	}
	l := e.ptrLoc(cc.Args[0])
	e.nilCheck(l.Ref, site, "atomic address")
	cur := e.load(e.cur, l)
	e.assume(rangeFact(cur, l.Typ), "atomic cell well typed")
	switch {
	case strings.HasPrefix(name, "Load"):
		v := e.defineValue(fmt.Sprintf("atomload%d", e.nextID()), cur)
		e.assume(rangeFact(v, rt), "atomic load well typed")
		return v, true
	case strings.HasPrefix(name, "Store"):
		e.store(e.cur, l, args[1])
		return TupleV{}, true
	case strings.HasPrefix(name, "Swap"):
		old := e.defineValue(fmt.Sprintf("atomold%d", e.nextID()), cur)
		e.store(e.cur, l, args[1])
		return old, true
	case strings.HasPrefix(name, "Add"):
		d := e.define(fmt.Sprintf("atomadd%d", e.nextID()), e.binopAdd(cur.(Sc).T, args[1].(Sc).T, l.Typ))
		e.store(e.cur, l, Sc{d})
		return Sc{d}, true
	case strings.HasPrefix(name, "CompareAndSwap"):
		ok := e.define(fmt.Sprintf("cas%d", e.nextID()), eqValue(cur, args[1], l.Typ))
		e.store(e.cur, l, iteValue(ok, args[2], cur))
		return Sc{ok}, true
	}
	return nil, false
}

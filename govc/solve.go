package main

import (
	"bytes"
	"context"
	"encoding/json"
	"fmt"
	"os"
	"os/exec"
	"path/filepath"
	"strings"
	"sync"
	"syscall"
	"time"
)

type SolveResult struct {
	Status string // unsat | sat | unknown | timeout | error
	Solver string
	Ms     int64
	Output string
	Model  string
}

type solverSpec struct {
	name string
	args func(file string, timeoutS int) []string
}

// Time budgets are CPU seconds of the solver process (ulimit -t), so that a verdict does not depend on how
// loaded the machine is; the wall-clock limits passed to the solvers and to the context are only a distant
// safety net (10x).
var solvers = []solverSpec{
	{"z3-new", func(f string, t int) []string { return []string{"z3-new", fmt.Sprintf("-T:%d", 10*t+10), f} }},
	{"z3", func(f string, t int) []string { return []string{"z3", fmt.Sprintf("-T:%d", 10*t+10), f} }},
	{"cvc5", func(f string, t int) []string {
		return []string{"cvc5", fmt.Sprintf("--tlimit=%d", (10*t+10)*1000), "--full-saturate-quant", f}
	}},
}

const hdrZ3Ematch = "(set-option :produce-models true)\n(set-option :smt.auto_config false)\n(set-option :smt.mbqi false)\n"
const hdrZ3 = "(set-option :produce-models true)\n"
const hdrCvc5 = "(set-option :produce-models true)\n(set-logic ALL)\n"

var procSem = make(chan struct{}, 16)

func runSolver(ctx context.Context, sp solverSpec, file string, timeoutS int) SolveResult {
	procSem <- struct{}{}
	defer func() { <-procSem }()
	args := sp.args(file, timeoutS)
	cctx, cancel := context.WithTimeout(ctx, time.Duration(10*timeoutS+15)*time.Second)
	defer cancel()
	sh := append([]string{"-c", fmt.Sprintf("ulimit -t %d; exec \"$@\"", timeoutS), "sh"}, args...)
	cmd := exec.CommandContext(cctx, "/bin/sh", sh...)
	var out bytes.Buffer
	cmd.Stdout = &out
	cmd.Stderr = &out
	t0 := time.Now()
	runErr := cmd.Run()
	ms := time.Since(t0).Milliseconds()
	killed := false
	if ee, ok := runErr.(*exec.ExitError); ok {
		if ws, ok := ee.Sys().(syscall.WaitStatus); ok && ws.Signaled() {
			killed = true // CPU limit (SIGXCPU/SIGKILL) or cancelled
		}
	}
	txt := out.String()
	first := ""
	for _, ln := range strings.Split(txt, "\n") {
		ln = strings.TrimSpace(ln)
		if ln == "" || strings.HasPrefix(ln, "WARNING") || strings.HasPrefix(ln, "(warning") {
			continue
		}
		first = ln
		break
	}
	r := SolveResult{Solver: sp.name, Ms: ms, Output: txt}
	switch first {
	case "unsat":
		r.Status = "unsat"
	case "sat":
		r.Status = "sat"
	case "unknown":
		r.Status = "unknown"
	case "timeout":
		r.Status = "timeout"
	default:
		if cctx.Err() != nil || killed {
			r.Status = "timeout"
		} else if strings.Contains(txt, "timeout") || strings.Contains(txt, "interrupted") {
			r.Status = "timeout"
		} else {
			r.Status = "error"
		}
	}
	return r
}

var workDir string
var workOnce sync.Once

func scratchDir() string {
	workOnce.Do(func() {
		d, err := os.MkdirTemp("", "govc-")
		if err != nil {
			panic(err)
		}
		workDir = d
	})
	return workDir
}

// Discharge tries to prove a query unsat with the solver portfolio.
// stage 1: z3-new alone for a short slice; stage 2: all three in parallel.
func Discharge(name, query string, timeoutS int, wantModel bool) SolveResult {
	stem := filepath.Join(scratchDir(), sanitize(name)+fmt.Sprintf("-%d", time.Now().UnixNano()))
	file := stem + ".e.smt2"
	q := hdrZ3Ematch + query
	if wantModel {
		q += "(get-model)\n"
	}
	if err := os.WriteFile(file, []byte(q), 0o644); err != nil {
		return SolveResult{Status: "error", Output: err.Error()}
	}
	defer os.Remove(file)
	// solver hint (an optimisation only: which back end discharged this obligation when the hints file
	// was last regenerated): try that one first with the full budget
	if h := solverHint(name); h != "" && h != "z3-new" {
		for _, sp := range solvers {
			if sp.name != h {
				continue
			}
			hf := stem + ".h.smt2"
			hdr := hdrZ3
			if h == "cvc5" {
				hdr = hdrCvc5
			}
			_ = os.WriteFile(hf, []byte(hdr+query), 0o644)
			rh := runSolver(context.Background(), sp, hf, timeoutS)
			os.Remove(hf)
			if rh.Status == "unsat" {
				return rh
			}
		}
	}
	slice := 5
	if timeoutS < slice {
		slice = timeoutS
	}
	r1 := runSolver(context.Background(), solvers[0], file, slice)
	if r1.Status == "unsat" {
		return r1
	}
	if r1.Status == "sat" || r1.Status == "unknown" {
		if i := strings.Index(r1.Output, "(\n"); i >= 0 {
			r1.Model = r1.Output[i:]
		} else if i := strings.Index(r1.Output, "(model"); i >= 0 {
			r1.Model = r1.Output[i:]
		}
	}
	// stage 2: full portfolio with default quantifier handling
	fz := stem + ".z.smt2"
	fc := stem + ".c.smt2"
	_ = os.WriteFile(fz, []byte(hdrZ3+query), 0o644)
	_ = os.WriteFile(fc, []byte(hdrCvc5+query), 0o644)
	defer os.Remove(fz)
	defer os.Remove(fc)
	ctx, cancel := context.WithCancel(context.Background())
	defer cancel()
	ch := make(chan SolveResult, len(solvers))
	for _, sp := range solvers {
		sp := sp
		f := fz
		if sp.name == "cvc5" {
			f = fc
		}
		go func() { ch <- runSolver(ctx, sp, f, timeoutS) }()
	}
	best := r1
	var total int64 = r1.Ms
	for range solvers {
		r := <-ch
		total += r.Ms
		if r.Status == "unsat" {
			cancel()
			r.Ms = total
			return r
		}
		if r.Status == "sat" && best.Status != "sat" {
			m := best.Model
			best = r
			best.Model = m
		} else if best.Status == "error" {
			best = r
		}
	}
	best.Ms = total
	return best
}

// Probe checks that a set of assumptions is not refutable (vacuity guard).
func Probe(name, query string) SolveResult {
	file := filepath.Join(scratchDir(), sanitize(name)+fmt.Sprintf("-%d.smt2", time.Now().UnixNano()))
	if err := os.WriteFile(file, []byte(hdrZ3Ematch+query), 0o644); err != nil {
		return SolveResult{Status: "error", Output: err.Error()}
	}
	defer os.Remove(file)
	return runSolver(context.Background(), solvers[0], file, 2)
}

var hintsOnce sync.Once
var hints map[string]string

// solverHint reads /verif/solver_hints.json (obligation name -> solver). The file is regenerated only by
// `govc hints` from the evidence of the last runs; it is never written by a check.
func solverHint(name string) string {
	hintsOnce.Do(func() {
		hints = map[string]string{}
		b, err := os.ReadFile(filepath.Join(verifDir(), "solver_hints.json"))
		if err == nil {
			_ = json.Unmarshal(b, &hints)
		}
	})
	return hints[name]
}

package main

import (
	"fmt"
	"go/ast"
	"go/constant"
	"go/token"
	"go/types"
	"math/big"
	"strconv"
	"strings"

	"golang.org/x/tools/go/ssa"
)

// TV is a typed symbolic value. T may be nil for mathematical integers / booleans.
type TV struct {
	V Value
	T types.Type
}

type SpecCtx struct {
	e      *Enc
	heap   *HeapState
	old    *HeapState
	vars   map[string]TV
	at     *ssa.BasicBlock
	atEnd  bool // names resolve at the end of block `at` (for edges) instead of its start
	atIdx  int  // when > 0: names resolve just before instruction index atIdx of block `at`
	phiSub map[ssa.Value]Value
	pkg    *types.Package
	lets   map[string]*Macro
	ghost  map[string]ghostInst
	depth  int
	owner  *FuncContract
	inOld  bool // inside old(...): parameter names denote their entry values
	params map[string]bool
	callee bool // evaluating a callee's contract at a call site
	// packed struct keys named once per clause evaluation (all definitions of one clause sit at one program point)
	keyMemo map[string]Term
}

type ghostInst struct {
	sym  string
	decl GhostFn
}

var mathInt = types.Typ[types.UntypedInt]
var mathBool = types.Typ[types.Bool]

func (c *SpecCtx) child() *SpecCtx {
	n := *c
	n.vars = map[string]TV{}
	for k, v := range c.vars {
		n.vars[k] = v
	}
	return &n
}

type specError struct{ msg string }

func (s specError) Error() string { return s.msg }

func (c *SpecCtx) fail(format string, a ...interface{}) {
	panic(specError{fmt.Sprintf(format, a...)})
}

// EvalBool evaluates a clause to a Bool term; errors are returned.
func (c *SpecCtx) EvalBool(x Expr) (t Term, err error) {
	defer func() {
		if r := recover(); r != nil {
			if se, ok := r.(specError); ok {
				err = fmt.Errorf("%s (in %s)", se.msg, x.String())
				return
			}
			panic(r)
		}
	}()
	if c.keyMemo == nil {
		c.keyMemo = map[string]Term{}
		defer func() { c.keyMemo = nil }()
	}
	tv := c.eval(x)
	return c.asBool(tv), nil
}

func (c *SpecCtx) asBool(tv TV) Term {
	s, ok := tv.V.(Sc)
	if !ok || s.T.Sort != SBool {
		c.fail("boolean expected, got %s", fmtValue(tv.V))
	}
	return s.T
}

func (c *SpecCtx) asInt(tv TV) Term {
	s, ok := tv.V.(Sc)
	if !ok || s.T.Sort != SInt {
		c.fail("integer expected, got %s", fmtValue(tv.V))
	}
	return s.T
}

func (c *SpecCtx) sortOfQVar(ty string) (string, types.Type) {
	switch ty {
	case "int", "ref", "Int":
		return SInt, mathInt
	case "bool":
		return SBool, mathBool
	case "string":
		return SStr, types.Typ[types.String]
	}
	t := c.resolveType(ty)
	if t == nil {
		c.fail("unknown type %q in quantifier", ty)
	}
	if shapeKindOf(t) != kScalar {
		c.fail("quantified variable of composite type %s", ty)
	}
	return scalarSort(t), t
}

func (c *SpecCtx) resolveType(ty string) types.Type {
	if strings.HasPrefix(ty, "*") {
		t := c.resolveType(ty[1:])
		if t == nil {
			return nil
		}
		return types.NewPointer(t)
	}
	if obj := types.Universe.Lookup(ty); obj != nil {
		if tn, ok := obj.(*types.TypeName); ok {
			return tn.Type()
		}
	}
	if i := strings.Index(ty, "."); i >= 0 {
		pn, name := ty[:i], ty[i+1:]
		for _, imp := range c.pkg.Imports() {
			if imp.Name() == pn || c.e.W.Aliases[c.pkg.Path()][pn] == imp.Path() {
				if obj := imp.Scope().Lookup(name); obj != nil {
					if tn, ok := obj.(*types.TypeName); ok {
						return tn.Type()
					}
				}
			}
		}
		return nil
	}
	if obj := c.pkg.Scope().Lookup(ty); obj != nil {
		if tn, ok := obj.(*types.TypeName); ok {
			return tn.Type()
		}
	}
	return nil
}

func (c *SpecCtx) eval(x Expr) TV {
	switch n := x.(type) {
	case *EInt:
		bi, _ := new(big.Int).SetString(n.V, 10)
		return TV{Sc{bigLit(bi)}, mathInt}
	case *EBool:
		return TV{Sc{boolLit(n.V)}, mathBool}
	case *EStr:
		return TV{Sc{c.e.strLit(n.V)}, types.Typ[types.String]}
	case *ENil:
		return TV{Sc{intLit(0)}, types.Typ[types.UntypedNil]}
	case *EIdent:
		return c.ident(n.Name)
	case *EUn:
		v := c.eval(n.X)
		switch n.Op {
		case "!":
			return TV{Sc{not(c.asBool(v))}, mathBool}
		case "-":
			return TV{Sc{sub(intLit(0), c.asInt(v))}, mathInt}
		}
		c.fail("unsupported unary %s", n.Op)
	case *EBin:
		return c.bin(n)
	case *ECond:
		cond := c.asBool(c.eval(n.C))
		a := c.eval(n.A)
		b := c.eval(n.B)
		a, b = c.unifyNil(a, b)
		return TV{iteValue(cond, a.V, b.V), pickType(a.T, b.T)}
	case *ESel:
		return c.sel(n)
	case *EIndex:
		return c.index(n)
	case *ESlice:
		v := c.eval(n.X)
		if sc, isStr := v.V.(Sc); isStr && sc.T.Sort == SStr {
			lo := intLit(0)
			if n.Lo != nil {
				lo = c.asInt(c.eval(n.Lo))
			}
			hi := app(SInt, "s.len", sc.T)
			if n.Hi != nil {
				hi = c.asInt(c.eval(n.Hi))
			}
			return TV{Sc{app(SStr, "s.sub", sc.T, lo, hi)}, types.Typ[types.String]}
		}
		sv, ok := v.V.(SliceV)
		if !ok {
			c.fail("slice expression on non-slice")
		}
		lo := intLit(0)
		if n.Lo != nil {
			lo = c.asInt(c.eval(n.Lo))
		}
		hi := sv.Len
		if n.Hi != nil {
			hi = c.asInt(c.eval(n.Hi))
		}
		return TV{SliceV{sv.Base, add(sv.Off, lo), sub(hi, lo), sub(sv.Cap, lo)}, v.T}
	case *ECall:
		return c.call(n)
	case *EQuant:
		if tv, ok := c.expandConstQuant(n); ok {
			return tv
		}
		cc := c.child()
		var decls []string
		var guards []Term
		for _, qv := range n.Vars {
			sort, ty := cc.sortOfQVar(qv.Type)
			sym := smtSym(fmt.Sprintf("%s!q%d", qv.Name, c.e.nextID()))
			decls = append(decls, fmt.Sprintf("(%s %s)", sym, sort))
			t := Term{sym, sort}
			cc.vars[qv.Name] = TV{Sc{t}, ty}
			if ty != mathInt && ty != nil {
				if g := rangeFact(Sc{t}, ty); g.S != "true" {
					guards = append(guards, g)
				}
			}
		}
		body := cc.asBool(cc.eval(n.Body))
		pats := ""
		for _, grp := range n.Triggers {
			var ts []string
			for _, te := range grp {
				tv := cc.eval(te)
				for _, lf := range flatten(tv.V) {
					ts = append(ts, lf.S)
				}
			}
			pats += " :pattern (" + strings.Join(ts, " ") + ")"
		}
		q := "exists"
		if n.Forall {
			q = "forall"
			body = implies(and(guards...), body)
		} else {
			body = and(append(guards, body)...)
		}
		if pats != "" {
			return TV{Sc{mk(SBool, "(%s (%s) (! %s%s))", q, strings.Join(decls, " "), body.S, pats)}, mathBool}
		}
		return TV{Sc{mk(SBool, "(%s (%s) %s)", q, strings.Join(decls, " "), body.S)}, mathBool}
	}
	c.fail("unsupported expression %T", x)
	return TV{}
}

// expandConstQuant: `forall i int :: lo <= i && i < hi ==> body` with literal bounds at most 64 apart
// (typically the indices of a fixed-size array) is expanded into the conjunction of its instances, which
// keeps such facts ground (no dependence on E-matching across whole-array copies).
func (c *SpecCtx) expandConstQuant(n *EQuant) (tv TV, ok bool) {
	if !n.Forall || len(n.Vars) != 1 || n.Vars[0].Type != "int" {
		return TV{}, false
	}
	imp, isBin := n.Body.(*EBin)
	if !isBin || imp.Op != "==>" {
		return TV{}, false
	}
	g, isBin := imp.X.(*EBin)
	if !isBin || g.Op != "&&" {
		return TV{}, false
	}
	name := n.Vars[0].Name
	lob, ok1 := g.X.(*EBin)
	hib, ok2 := g.Y.(*EBin)
	if !ok1 || !ok2 || lob.Op != "<=" || hib.Op != "<" {
		return TV{}, false
	}
	if id, isID := lob.Y.(*EIdent); !isID || id.Name != name {
		return TV{}, false
	}
	if id, isID := hib.X.(*EIdent); !isID || id.Name != name {
		return TV{}, false
	}
	lit := func(x Expr) (v int64, ok bool) {
		defer func() {
			if r := recover(); r != nil {
				ok = false
			}
		}()
		t := c.asInt(c.eval(x))
		v, err := strconv.ParseInt(t.S, 10, 64)
		return v, err == nil
	}
	lo, okl := lit(lob.X)
	hi, okh := lit(hib.Y)
	if !okl || !okh || hi-lo > 64 || hi < lo {
		return TV{}, false
	}
	var cs []Term
	for k := lo; k < hi; k++ {
		cc := c.child()
		cc.vars[name] = TV{Sc{intLit(k)}, mathInt}
		cs = append(cs, cc.asBool(cc.eval(imp.Y)))
	}
	return TV{Sc{and(cs...)}, mathBool}, true
}

func pickType(a, b types.Type) types.Type {
	if a == nil || a == mathInt || isUntypedNil(a) {
		return b
	}
	return a
}

func isUntypedNil(t types.Type) bool {
	b, ok := t.(*types.Basic)
	return ok && b.Kind() == types.UntypedNil
}

// unifyNil adapts an untyped nil to the shape of the other operand.
func (c *SpecCtx) unifyNil(a, b TV) (TV, TV) {
	if a.T != nil && isUntypedNil(a.T) && b.T != nil && !isUntypedNil(b.T) {
		return TV{zeroValue(b.T), b.T}, b
	}
	if b.T != nil && isUntypedNil(b.T) && a.T != nil && !isUntypedNil(a.T) {
		return a, TV{zeroValue(a.T), a.T}
	}
	return a, b
}

func (c *SpecCtx) bin(n *EBin) TV {
	switch n.Op {
	case "&&":
		return TV{Sc{and(c.asBool(c.eval(n.X)), c.asBool(c.eval(n.Y)))}, mathBool}
	case "||":
		return TV{Sc{or(c.asBool(c.eval(n.X)), c.asBool(c.eval(n.Y)))}, mathBool}
	case "==>":
		return TV{Sc{implies(c.asBool(c.eval(n.X)), c.asBool(c.eval(n.Y)))}, mathBool}
	case "<==>":
		return TV{Sc{eq(c.asBool(c.eval(n.X)), c.asBool(c.eval(n.Y)))}, mathBool}
	}
	a := c.eval(n.X)
	b := c.eval(n.Y)
	switch n.Op {
	case "==", "!=":
		a, b = c.derefArrayPtr(a, b)
		a, b = c.unifyNil(a, b)
		// a nested struct field is held as a pointer to its instance: compared with a struct value, it is loaded
		if a.T != nil && b.T != nil {
			if _, isS := b.V.(StructV); isS {
				if p, ok := a.T.Underlying().(*types.Pointer); ok && types.Identical(p.Elem(), b.T) {
					a = c.structValue(a)
				}
			}
			if _, isS := a.V.(StructV); isS {
				if p, ok := b.T.Underlying().(*types.Pointer); ok && types.Identical(p.Elem(), a.T) {
					b = c.structValue(b)
				}
			}
		}
		if a.T != nil && b.T != nil && a.T != mathInt && b.T != mathInt && a.T != mathBool && b.T != mathBool {
			// an interface value is a box: comparing it with a concrete value is a specification error
			// (it would silently compare the box identity), use unbox(x, "T")
			if types.IsInterface(a.T) != types.IsInterface(b.T) && !isUntypedNil(a.T) && !isUntypedNil(b.T) {
				c.fail("comparison of an interface value with a concrete value (%s vs %s): use unbox(x, \"T\")", a.T, b.T)
			}
		}
		t := pickType(a.T, b.T)
		var r Term
		if _, isSl := a.V.(SliceV); isSl {
			// comparison with nil
			r = eq(a.V.(SliceV).Base, b.V.(SliceV).Base)
		} else if t == nil || t == mathInt || t == mathBool {
			r = eq(a.V.(Sc).T, b.V.(Sc).T)
		} else {
			r = eqValue(a.V, b.V, t)
		}
		if n.Op == "!=" {
			r = not(r)
		}
		return TV{Sc{r}, mathBool}
	}
	x, y := c.asInt(a), c.asInt(b)
	switch n.Op {
	case "<":
		return TV{Sc{lt(x, y)}, mathBool}
	case "<=":
		return TV{Sc{le(x, y)}, mathBool}
	case ">":
		return TV{Sc{gt(x, y)}, mathBool}
	case ">=":
		return TV{Sc{ge(x, y)}, mathBool}
	case "+":
		return TV{Sc{add(x, y)}, mathInt}
	case "-":
		return TV{Sc{sub(x, y)}, mathInt}
	case "*":
		return TV{Sc{mul(x, y)}, mathInt}
	case "/":
		if k, ok := constInt(y); ok && k.Sign() > 0 {
			return TV{Sc{Term{fmt.Sprintf("(let ((a! %s)) (ite (>= a! 0) (div a! %s) (- (div (- a!) %s))))", x.S, y.S, y.S), SInt}}, mathInt}
		}
		return TV{Sc{tdiv(x, y)}, mathInt}
	case "%":
		if k, ok := constInt(y); ok && k.Sign() > 0 {
			return TV{Sc{Term{fmt.Sprintf("(let ((a! %s)) (ite (>= a! 0) (mod a! %s) (- (mod (- a!) %s))))", x.S, y.S, y.S), SInt}}, mathInt}
		}
		return TV{Sc{tmod(x, y)}, mathInt}
	case "<<":
		if k, ok := constInt(y); ok {
			return TV{Sc{mul(x, bigLit(pow2(uint(k.Int64()))))}, mathInt}
		}
		sw := uint(64)
		if wa, _, ok := widthOf(a.T); ok {
			// a typed left operand shifts like the Go operator: inside its width, wrapping
			return TV{Sc{wrapTo(mul(x, c.e.pow2Term(y, wa)), a.T)}, a.T}
		}
		return TV{Sc{mul(x, c.e.pow2Term(y, sw))}, mathInt}
	case ">>":
		if k, ok := constInt(y); ok {
			return TV{Sc{app(SInt, "div", x, bigLit(pow2(uint(k.Int64()))))}, a.T}
		}
		sw := uint(64)
		if wa, _, ok := widthOf(a.T); ok {
			sw = wa
		}
		return TV{Sc{app(SInt, "div", x, c.e.pow2Term(y, sw))}, a.T}
	case "&", "|", "^", "&^":
		w := uint(64)
		if wa, _, ok := widthOf(a.T); ok {
			w = wa
		}
		if wb, _, ok := widthOf(b.T); ok && wb > w || w == 64 && ok {
			w = wb
		}
		all := new(big.Int).Sub(pow2(w), big.NewInt(1))
		if k, ok := constInt(y); ok && k.Sign() >= 0 {
			switch n.Op {
			case "&":
				return TV{Sc{andConst(x, k, 64)}, pickType(a.T, b.T)}
			case "&^":
				return TV{Sc{andConst(x, new(big.Int).Xor(k, all), w)}, a.T}
			case "|":
				return TV{Sc{add(andConst(x, new(big.Int).Xor(k, all), w), bigLit(k))}, a.T}
			}
		}
		if k, ok := constInt(x); ok && k.Sign() >= 0 && n.Op == "&" {
			return TV{Sc{andConst(y, k, 64)}, pickType(a.T, b.T)}
		}
		name := map[string]string{"&": "band", "|": "bor", "^": "bxor", "&^": "bandnot"}[n.Op]
		if name == "bandnot" {
			if w <= 16 {
				return TV{Sc{sub(x, exactBitOp("band", w, x, y))}, a.T}
			}
			return TV{Sc{sub(x, c.e.bitUF("band", w, x, y))}, a.T}
		}
		if w <= 16 {
			return TV{Sc{exactBitOp(name, w, x, y)}, pickType(a.T, b.T)}
		}
		return TV{Sc{c.e.bitUF(name, w, x, y)}, pickType(a.T, b.T)}
	}
	c.fail("unsupported binary operator %s", n.Op)
	return TV{}
}

func widthOf(t types.Type) (uint, bool, bool) {
	if t == nil || t == mathInt {
		return 0, false, false
	}
	return intWidth(t)
}

// ident resolves a name.
func (c *SpecCtx) ident(name string) TV {
	// at a program point inside the body a (reassigned) parameter name denotes its current value;
	// old(name) denotes the value on entry
	if c.at != nil && !c.inOld && c.params[name] {
		if tv, ok := c.ssaName(name); ok {
			return tv
		}
	}
	if tv, ok := c.vars[name]; ok {
		return tv
	}
	if m, ok := c.lets[name]; ok && len(m.Params) == 0 {
		return c.expandMacro(m, nil)
	}
	if c.at != nil {
		if tv, ok := c.ssaName(name); ok {
			return tv
		}
	}
	// captured variables of a closure under verification: current content of the captured cell
	if c.owner != nil && c.owner == c.e.fc {
		for _, fv := range c.e.fn.FreeVars {
			if fv.Name() == name {
				pt := fv.Type().Underlying().(*types.Pointer)
				return TV{c.e.load(c.heap, locOfRef(c.e.val(fv).(Sc).T, pt.Elem())), pt.Elem()}
			}
		}
	}
	// package scope
	if obj := c.pkg.Scope().Lookup(name); obj != nil {
		return c.object(obj)
	}
	if obj := types.Universe.Lookup(name); obj != nil {
		if cn, ok := obj.(*types.Const); ok {
			if t, ok := constToTerm(cn.Val(), cn.Type()); ok {
				return TV{Sc{t}, cn.Type()}
			}
		}
	}
	c.fail("unknown identifier %q", name)
	return TV{}
}

func (c *SpecCtx) object(obj types.Object) TV {
	switch o := obj.(type) {
	case *types.Const:
		if o.Val().Kind() == constant.String {
			return TV{Sc{c.e.strLit(constant.StringVal(o.Val()))}, o.Type()}
		}
		if t, ok := constToTerm(o.Val(), o.Type()); ok {
			return TV{Sc{t}, o.Type()}
		}
		c.fail("unsupported constant %s", o.Name())
	case *types.Var:
		sp := c.e.W.Prog.Package(o.Pkg())
		if sp == nil {
			c.fail("no SSA package for %s", o.Pkg().Path())
		}
		g := sp.Var(o.Name())
		if g == nil {
			c.fail("no global %s", o.Name())
		}
		if t, isS := c.e.sentinelConst(g); isS {
			return TV{Sc{t}, o.Type()}
		}
		ref := c.e.val(g).(Sc).T
		if shapeKindOf(o.Type()) == kStruct || shapeKindOf(o.Type()) == kArrayOfComposite {
			// struct-typed globals are kept as pointers to their storage (fields are then selected through it)
			return TV{Sc{ref}, types.NewPointer(o.Type())}
		}
		return TV{c.e.load(c.heap, locOfRef(ref, o.Type())), o.Type()}
	}
	c.fail("unsupported object %s", obj)
	return TV{}
}

// ssaName resolves a source-level local name at the program point c.at.
func (c *SpecCtx) ssaName(name string) (TV, bool) {
	b := c.at
	get := func(v ssa.Value, isAddr bool) (TV, bool) {
		var val Value
		if sub, ok := c.phiSub[v]; ok {
			val = sub
		} else {
			val = c.e.val(v)
		}
		if isAddr {
			pt := v.Type().Underlying().(*types.Pointer)
			if g, isGlobal := v.(*ssa.Global); isGlobal {
				if t, isS := c.e.sentinelConst(g); isS {
					return TV{Sc{t}, pt.Elem()}, true
				}
			}
			if _, isGlobal := v.(*ssa.Global); isGlobal && (shapeKindOf(pt.Elem()) == kStruct || shapeKindOf(pt.Elem()) == kArrayOfComposite) {
				// struct-typed package variables are kept as pointers to their storage, as in object()
				return TV{val, v.Type()}, true
			}
			l := locOfRef(val.(Sc).T, pt.Elem())
			if kl, ok := c.e.locs[v]; ok && kl.Priv != "" {
				// non-escaping local: its content lives in the private heap
				l.Priv = kl.Priv
			}
			return TV{c.e.load(c.heap, l), pt.Elem()}, true
		}
		return TV{val, v.Type()}, true
	}
	if name == "$iter" {
		// iteration variable of the innermost enclosing range-over-int loop
		for d := b; d != nil; d = d.Idom() {
			for _, in := range d.Instrs {
				if p, ok := in.(*ssa.Phi); ok && p.Comment == "rangeint.iter" {
					return get(p, false)
				}
			}
		}
		return TV{}, false
	}
	if name == "$idx2" {
		// index of the element being processed by the second innermost enclosing range loop
		seen := 0
		for d := b; d != nil; d = d.Idom() {
			for _, in := range d.Instrs {
				if p, ok := in.(*ssa.Phi); ok && p.Comment == "rangeindex" {
					seen++
					if seen == 2 {
						tv, _ := get(p, false)
						return TV{Sc{add(tv.V.(Sc).T, intLit(1))}, mathInt}, true
					}
				}
			}
		}
		return TV{}, false
	}
	if name == "$range" {
		// the slice (or string) walked by the innermost enclosing range loop
		for d := b; d != nil; d = d.Idom() {
			var idxPhi *ssa.Phi
			for _, in := range d.Instrs {
				if p, ok := in.(*ssa.Phi); ok && p.Comment == "rangeindex" {
					idxPhi = p
				}
			}
			if idxPhi == nil {
				continue
			}
			for _, in := range d.Instrs {
				if bo, ok := in.(*ssa.BinOp); ok && bo.Op == token.LSS {
					if call, ok := bo.Y.(*ssa.Call); ok {
						if bi, ok := call.Call.Value.(*ssa.Builtin); ok && bi.Name() == "len" {
							return get(call.Call.Args[0], false)
						}
					}
				}
			}
			return TV{}, false
		}
		return TV{}, false
	}
	if name == "$exhausted" {
		// the innermost enclosing range-over-map/string loop has run out of elements (false inside the body,
		// hence false on a `break`): `exit $exhausted` says the walk visits every element
		for d := b; d != nil; d = d.Idom() {
			for _, in := range d.Instrs {
				nx, ok := in.(*ssa.Next)
				if !ok {
					continue
				}
				for _, in2 := range d.Instrs {
					if ex, ok := in2.(*ssa.Extract); ok && ex.Tuple == nx && ex.Index == 0 {
						tv, ok := get(ex, false)
						if !ok {
							return TV{}, false
						}
						return TV{Sc{not(tv.V.(Sc).T)}, mathBool}, true
					}
				}
			}
		}
		return TV{}, false
	}
	if name == "$idx" {
		// completed iterations of the innermost enclosing range loop (at its header), i.e. the index of
		// the element being processed when used inside the body
		for d := b; d != nil; d = d.Idom() {
			for _, in := range d.Instrs {
				if p, ok := in.(*ssa.Phi); ok && p.Comment == "rangeindex" {
					tv, _ := get(p, false)
					return TV{Sc{add(tv.V.(Sc).T, intLit(1))}, mathInt}, true
				}
			}
		}
		return TV{}, false
	}
	scan := func(d *ssa.BasicBlock, phisOnly bool) (TV, bool) {
		start := len(d.Instrs) - 1
		if d == b && c.atIdx > 0 {
			start = c.atIdx - 1
			phisOnly = false
		}
		for i := start; i >= 0; i-- {
			switch x := d.Instrs[i].(type) {
			case *ssa.Phi:
				if x.Comment == name {
					return get(x, false)
				}
			case *ssa.DebugRef:
				if phisOnly {
					continue
				}
				if id, ok := x.Expr.(*ast.Ident); ok && id.Name == name {
					return get(x.X, x.IsAddr)
				}
			}
		}
		return TV{}, false
	}
	if tv, ok := scan(b, !c.atEnd); ok {
		return tv, true
	}
	for d := b.Idom(); d != nil; d = d.Idom() {
		if tv, ok := scan(d, false); ok {
			return tv, true
		}
	}
	for _, p := range c.e.fn.Params {
		if p.Name() == name {
			return get(p, false)
		}
	}
	for _, p := range c.e.fn.FreeVars {
		if p.Name() == name {
			return get(p, true)
		}
	}
	// named results and other address-taken locals: their storage is allocated in the entry block
	if len(c.e.fn.Blocks) > 0 {
		for _, in := range c.e.fn.Blocks[0].Instrs {
			if a, ok := in.(*ssa.Alloc); ok && a.Comment == name {
				if _, known := c.e.vals[a]; known {
					return get(a, true)
				}
			}
		}
	}
	return TV{}, false
}

func (c *SpecCtx) sel(n *ESel) TV {
	// qualified identifier?
	if id, ok := n.X.(*EIdent); ok {
		if _, isVar := c.vars[id.Name]; !isVar {
			found := false
			if c.at != nil {
				_, found = c.ssaName(id.Name)
			}
			if !found {
				for _, imp := range c.pkg.Imports() {
					if imp.Name() == id.Name || c.e.W.Aliases[c.pkg.Path()][id.Name] == imp.Path() {
						obj := imp.Scope().Lookup(n.F)
						if obj == nil {
							c.fail("%s.%s not found", id.Name, n.F)
						}
						return c.object(obj)
					}
				}
			}
		}
	}
	x := c.eval(n.X)
	if x.T == nil {
		c.fail("selector .%s on untyped value", n.F)
	}
	return c.field(x, n.F)
}

// ghostFieldLoc resolves x.$name for a declared ghost field of the pointee type of x.
func (c *SpecCtx) ghostFieldLoc(x TV, fname string) (Loc, bool) {
	if !strings.HasPrefix(fname, "$") || x.T == nil {
		return Loc{}, false
	}
	pt, ok := x.T.Underlying().(*types.Pointer)
	if !ok {
		return Loc{}, false
	}
	tk := typeKey(pt.Elem())
	ty, ok := c.e.W.Contracts.GhostFields[tk+"::"+fname[1:]]
	if !ok {
		return Loc{}, false
	}
	var gt types.Type
	switch ty {
	case "string":
		gt = types.Typ[types.String]
	case "bool":
		gt = types.Typ[types.Bool]
	default:
		gt = types.Typ[types.Int]
	}
	return Loc{Kind: locCell, Fam: "GF$" + sanitize(tk) + "$" + fname[1:], Ref: x.V.(Sc).T, Typ: gt}, true
}

func (c *SpecCtx) field(x TV, fname string) TV {
	if gl, ok := c.ghostFieldLoc(x, fname); ok {
		return TV{c.e.load(c.heap, gl), gl.Typ}
	}
	// slices expose pseudo-fields
	if sv, ok := x.V.(SliceV); ok {
		switch fname {
		case "$base":
			return TV{Sc{sv.Base}, mathInt}
		case "$off":
			return TV{Sc{sv.Off}, mathInt}
		}
	}
	obj, index, _ := types.LookupFieldOrMethod(x.T, true, c.pkg, fname)
	if obj == nil {
		// unexported field of another package
		obj, index = lookupFieldAnyPkg(x.T, fname)
		if obj == nil {
			c.fail("no field %s in %s", fname, x.T)
		}
	}
	if _, ok := obj.(*types.Var); !ok {
		c.fail("%s is not a field", fname)
	}
	cur := x
	for _, idx := range index {
		t := cur.T
		if p, ok := t.Underlying().(*types.Pointer); ok {
			ref := cur.V.(Sc).T
			st := p.Elem()
			l := c.e.fieldLoc(ref, st, idx)
			ft := st.Underlying().(*types.Struct).Field(idx).Type()
			_, isArrField := ft.Underlying().(*types.Array)
			if l.Kind == locInst && (shapeKindOf(ft) == kStruct || shapeKindOf(ft) == kArrayOfComposite || (isArrField && !isOpaque(ft))) {
				// keep as pointer to nested instance for further selection
				cur = TV{Sc{l.Ref}, types.NewPointer(ft)}
				// but if this is the last step, load the value
				if idx == index[len(index)-1] && len(index) == 1 || false {
				}
				continue
			}
			cur = TV{c.e.load(c.heap, l), ft}
			continue
		}
		sv, ok := cur.V.(StructV)
		if !ok {
			c.fail("field %s of non-struct value (%s)", fname, t)
		}
		ft := t.Underlying().(*types.Struct).Field(idx).Type()
		cur = TV{sv.F[idx], ft}
	}
	// if the final result is a pointer to a nested struct instance created above, dereference lazily:
	return cur
}

func lookupFieldAnyPkg(t types.Type, fname string) (types.Object, []int) {
	if p, ok := t.Underlying().(*types.Pointer); ok {
		t = p.Elem()
	}
	st, ok := t.Underlying().(*types.Struct)
	if !ok {
		return nil, nil
	}
	for i := 0; i < st.NumFields(); i++ {
		if st.Field(i).Name() == fname {
			return st.Field(i), []int{i}
		}
	}
	for i := 0; i < st.NumFields(); i++ {
		if st.Field(i).Embedded() {
			if o, idx := lookupFieldAnyPkg(st.Field(i).Type(), fname); o != nil {
				return o, append([]int{i}, idx...)
			}
		}
	}
	return nil, nil
}

// keyValue: a struct-typed map key that the evaluator holds as a pointer to its instance is loaded.
func (c *SpecCtx) keyValue(tv TV, kt types.Type) Value {
	if _, isStruct := kt.Underlying().(*types.Struct); isStruct {
		if p, ok := tv.T.Underlying().(*types.Pointer); ok && types.Identical(p.Elem(), kt) {
			return c.structValue(tv).V
		}
	}
	return tv.V
}

// derefIfInst: values of nested struct type are kept as pointers to their instance.
func (c *SpecCtx) structValue(x TV) TV {
	if p, ok := x.T.Underlying().(*types.Pointer); ok {
		return TV{c.e.load(c.heap, locOfRef(x.V.(Sc).T, p.Elem())), p.Elem()}
	}
	return x
}

func (c *SpecCtx) index(n *EIndex) TV {
	x := c.eval(n.X)
	if x.T == nil {
		c.fail("index on untyped value")
	}
	switch t := x.T.Underlying().(type) {
	case *types.Slice:
		i := c.asInt(c.eval(n.I))
		sv := x.V.(SliceV)
		l := sliceElemLoc(sv, i, t.Elem())
		if l.Kind == locInst && shapeKindOf(t.Elem()) == kStruct {
			return TV{Sc{l.Ref}, types.NewPointer(t.Elem())}
		}
		return TV{c.e.load(c.heap, l), t.Elem()}
	case *types.Array:
		i := c.asInt(c.eval(n.I))
		if s, ok := x.V.(Sc); ok {
			return TV{Sc{sel(s.T, i)}, t.Elem()}
		}
		if arr, ok := x.V.(ArrayV); ok {
			v := arr.E[len(arr.E)-1]
			for k := len(arr.E) - 2; k >= 0; k-- {
				v = iteValue(eq(i, intLit(int64(k))), arr.E[k], v)
			}
			return TV{v, t.Elem()}
		}
	case *types.Pointer:
		if at, ok := t.Elem().Underlying().(*types.Array); ok {
			i := c.asInt(c.eval(n.I))
			l := elemLoc(x.V.(Sc).T, i, at.Elem())
			if l.Kind == locInst && shapeKindOf(at.Elem()) == kStruct {
				return TV{Sc{l.Ref}, types.NewPointer(at.Elem())}
			}
			return TV{c.e.load(c.heap, l), at.Elem()}
		}
	case *types.Map:
		mi := c.e.mapInfoOf(x.T)
		if !mi.ok {
			c.fail("map with composite key in spec")
		}
		k := c.e.mapKeyMemo(c.keyValue(c.eval(n.I), mi.kt), mi.kt, c.keyMemo)
		m := x.V.(Sc).T
		in := sel(c.e.mapDom(c.heap, mi, m), k)
		return TV{iteValue(in, c.e.mapGet(c.heap, mi, m, k), zeroValue(t.Elem())), t.Elem()}
	case *types.Basic:
		if t.Info()&types.IsString != 0 {
			i := c.asInt(c.eval(n.I))
			return TV{Sc{app(SInt, "s.at", x.V.(Sc).T, i)}, types.Typ[types.Uint8]}
		}
	}
	c.fail("cannot index %s", x.T)
	return TV{}
}

func (c *SpecCtx) expandMacro(m *Macro, args []TV) TV {
	if c.depth > 40 {
		c.fail("macro expansion too deep (%s)", m.Name)
	}
	if len(args) != len(m.Params) {
		c.fail("macro %s expects %d arguments", m.Name, len(m.Params))
	}
	cc := c.child()
	cc.depth = c.depth + 1
	for i, p := range m.Params {
		a := args[i]
		if (a.T == nil || a.T == mathInt) && p.Type != "int" && p.Type != "bool" && p.Type != "ref" {
			if t := c.resolveType(p.Type); t != nil {
				a.T = t
			}
		}
		cc.vars[p.Name] = a
	}
	return cc.eval(m.Body)
}

func (c *SpecCtx) call(n *ECall) TV {
	// method call on a value?
	if s, ok := n.Fn.(*ESel); ok {
		return c.methodOrQualifiedCall(s, n.Args)
	}
	id, ok := n.Fn.(*EIdent)
	if !ok {
		c.fail("unsupported call target %s", n.Fn)
	}
	name := id.Name
	evalArgs := func() []TV {
		out := make([]TV, len(n.Args))
		for i, a := range n.Args {
			out[i] = c.eval(a)
		}
		return out
	}
	switch name {
	case "old":
		cc := c.child()
		cc.heap = c.old
		cc.inOld = true
		return cc.eval(n.Args[0])
	case "len":
		a := c.eval(n.Args[0])
		switch v := a.V.(type) {
		case SliceV:
			return TV{Sc{v.Len}, mathInt}
		case Sc:
			if a.T != nil {
				switch t := a.T.Underlying().(type) {
				case *types.Array:
					return TV{Sc{intLit(t.Len())}, mathInt}
				case *types.Pointer:
					if at, ok := t.Elem().Underlying().(*types.Array); ok {
						return TV{Sc{intLit(at.Len())}, mathInt}
					}
				case *types.Map:
					mi := c.e.mapInfoOf(a.T)
					return TV{Sc{c.e.mapLen(c.heap, mi, v.T)}, mathInt}
				case *types.Basic:
					if t.Info()&types.IsString != 0 {
						return TV{Sc{app(SInt, "s.len", v.T)}, mathInt}
					}
				}
			}
			if v.T.Sort == SStr {
				return TV{Sc{app(SInt, "s.len", v.T)}, mathInt}
			}
		}
		c.fail("len of unsupported value")
	case "cap":
		a := c.eval(n.Args[0])
		if v, ok := a.V.(SliceV); ok {
			return TV{Sc{v.Cap}, mathInt}
		}
		c.fail("cap of non-slice")
	case "has": // has(m, k): key present in map
		a := c.eval(n.Args[0])
		mi := c.e.mapInfoOf(a.T)
		if !mi.ok {
			c.fail("map with composite key in spec")
		}
		k := c.e.mapKeyMemo(c.keyValue(c.eval(n.Args[1]), mi.kt), mi.kt, c.keyMemo)
		return TV{Sc{sel(c.e.mapDom(c.heap, mi, a.V.(Sc).T), k)}, mathBool}
	case "nonnilvals": // nonnilvals(m): every value stored in the map (of pointer values) is non-nil
		a := c.eval(n.Args[0])
		mi := c.e.mapInfoOf(a.T)
		if !mi.ok || len(mi.vsorts) != 1 || mi.vsorts[0] != SInt {
			c.fail("nonnilvals needs a map with pointer values")
		}
		m := a.V.(Sc).T
		dom := c.e.mapDom(c.heap, mi, m)
		vals := sel(c.heap.get(fmt.Sprintf("%s#v0", mi.fam), arrSort(SInt, arrSort(mi.keySort, SInt))), m)
		return TV{Sc{mk(SBool, "(forall ((qk! %s)) (! (=> (select %s qk!) (not (= (select %s qk!) 0))) :pattern ((select %s qk!)) :pattern ((select %s qk!))))",
			mi.keySort, dom.S, vals.S, dom.S, vals.S)}, mathBool}
	case "calls": // calls("callee"): number of calls made by this function to callees whose name ends so
		st, ok := n.Args[0].(*EStr)
		if !ok {
			c.fail("calls() needs a string literal")
		}
		if c.callee {
			// a callee's contract applied at a call site: its call counts are internal to the callee and
			// say nothing about the caller's counters
			return TV{Sc{c.e.freshConst("calleecalls", SInt)}, mathInt}
		}
		return TV{Sc{c.e.callCount(c.heap, st.V)}, mathInt}
	case "nocalls": // nocalls("callee"): this function has made no call to a callee whose name ends so
		st, ok := n.Args[0].(*EStr)
		if !ok {
			c.fail("nocalls() needs a string literal")
		}
		if c.callee {
			return TV{Sc{c.e.freshConst("calleenocalls", SBool)}, mathBool}
		}
		c.e.noCallsQuery = true
		t := c.e.callCount(c.heap, st.V)
		c.e.noCallsQuery = false
		return TV{Sc{eq(t, intLit(0))}, mathBool}
	case "nth": // nth(tuple, i): component of a multi-valued pure call
		a := c.eval(n.Args[0])
		tv, ok := a.V.(TupleV)
		k, ok2 := n.Args[1].(*EInt)
		if !ok || !ok2 {
			c.fail("nth(tuple, literal) expected")
		}
		var idx int
		fmt.Sscan(k.V, &idx)
		tt, _ := a.T.(*types.Tuple)
		if idx < 0 || idx >= len(tv.E) || tt == nil {
			c.fail("nth: index out of range")
		}
		return TV{tv.E[idx], tt.At(idx).Type()}
	case "cat": // string concatenation
		as := evalArgs()
		return TV{Sc{app(SStr, "s.cat", as[0].V.(Sc).T, as[1].V.(Sc).T)}, types.Typ[types.String]}
	case "chr": // one-byte string
		a := c.asInt(c.eval(n.Args[0]))
		return TV{Sc{app(SStr, "s.chr", a)}, types.Typ[types.String]}
	case "min", "max":
		as := evalArgs()
		x, y := c.asInt(as[0]), c.asInt(as[1])
		if name == "min" {
			return TV{Sc{ite(le(x, y), x, y)}, mathInt}
		}
		return TV{Sc{ite(ge(x, y), x, y)}, mathInt}
	case "abs":
		x := c.asInt(c.eval(n.Args[0]))
		return TV{Sc{app(SInt, "abs", x)}, mathInt}
	case "bit": // bit(x, j): j-th bit of non-negative x
		as := evalArgs()
		x, j := c.asInt(as[0]), c.asInt(as[1])
		if k, ok := constInt(j); ok {
			return TV{Sc{eq(app(SInt, "mod", app(SInt, "div", x, bigLit(pow2(uint(k.Int64())))), intLit(2)), intLit(1))}, mathBool}
		}
		return TV{Sc{eq(app(SInt, "mod", app(SInt, "div", x, c.e.pow2Term(j, 64)), intLit(2)), intLit(1))}, mathBool}
	case "deref":
		a := c.eval(n.Args[0])
		return c.structValue(a)
	case "fresh": // fresh(x): x (pointer, map or slice) designates memory allocated during this call
		a := c.eval(n.Args[0])
		var ref Term
		switch v := a.V.(type) {
		case SliceV:
			ref = v.Base
		case Sc:
			ref = v.T
		default:
			c.fail("fresh() of composite value")
		}
		return TV{Sc{not(app(SBool, "ref.old", app(SInt, "ref.root", ref)))}, mathBool}
	case "unbox": // unbox(x, "T"): the value of dynamic type T stored in interface x
		a := c.eval(n.Args[0])
		st, ok := n.Args[1].(*EStr)
		if !ok {
			c.fail("unbox needs a string literal type")
		}
		t := c.resolveType(st.V)
		if t == nil {
			c.fail("unbox: unknown type %s", st.V)
		}
		_, unbox, _ := c.e.boxName(t)
		sorts := leafSorts(t)
		if len(sorts) > 1 {
			return TV{c.e.unboxMulti(unbox, t, sorts, a.V.(Sc).T), t}
		}
		if len(sorts) != 1 {
			c.fail("unbox of an empty type")
		}
		c.e.declareFun(unbox, []string{SInt}, sorts[0])
		return TV{Sc{app(sorts[0], smtSym(unbox), a.V.(Sc).T)}, t}
	case "zero": // zero("T"): the zero value of type T
		st, ok := n.Args[0].(*EStr)
		if !ok {
			c.fail("zero needs a string literal type")
		}
		t := c.resolveType(st.V)
		if t == nil {
			c.fail("zero: unknown type %s", st.V)
		}
		return TV{zeroValue(t), t}
	case "methodvalue": // methodvalue(x, recv, "name"): x is the method value recv.name made in this function
		a := c.eval(n.Args[0])
		r := c.eval(n.Args[1])
		s, ok := n.Args[2].(*EStr)
		if !ok {
			c.fail("methodvalue needs a string literal method name")
		}
		sc, isSc := a.V.(Sc)
		if !isSc {
			c.fail("methodvalue: not a function value")
		}
		mc := c.e.closureOf[sc.T.S]
		if mc == nil {
			return TV{Sc{tFalse}, mathBool}
		}
		fn, _ := mc.Fn.(*ssa.Function)
		if fn == nil || fn.Name() != s.V+"$bound" || len(mc.Bindings) != 1 {
			return TV{Sc{tFalse}, mathBool}
		}
		return TV{Sc{eq(c.e.val(mc.Bindings[0]).(Sc).T, r.V.(Sc).T)}, mathBool}
	case "typeis": // typeis(x, "pkg.T") dynamic type test on interface
		a := c.eval(n.Args[0])
		s, ok := n.Args[1].(*EStr)
		if !ok {
			c.fail("typeis needs a string literal type")
		}
		t := c.resolveType(s.V)
		if t == nil {
			c.fail("typeis: unknown type %s", s.V)
		}
		_, _, tag := c.e.boxName(t)
		return TV{Sc{and(not(eq(a.V.(Sc).T, intLit(0))), eq(app(SInt, "iface.type", a.V.(Sc).T), intLit(int64(tag))))}, mathBool}
	case "int", "int8", "int16", "int32", "int64", "uint", "uint8", "uint16", "uint32", "uint64", "uintptr", "byte":
		a := c.eval(n.Args[0])
		return TV{a.V, types.Universe.Lookup(name).Type()}
	case "wrap8", "wrap16", "wrap32", "wrap64":
		a := c.asInt(c.eval(n.Args[0]))
		w := map[string]uint{"wrap8": 8, "wrap16": 16, "wrap32": 32, "wrap64": 64}[name]
		return TV{Sc{app(SInt, "mod", a, bigLit(pow2(w)))}, mathInt}
	}
	if g, ok := c.ghost[name]; ok {
		as := evalArgs()
		var ts []Term
		for _, a := range as {
			ts = append(ts, flatten(a.V)...)
		}
		sort, ty := c.sortOfQVar(g.decl.Ret)
		if len(ts) == 0 {
			return TV{Sc{Term{smtSym(g.sym), sort}}, ty}
		}
		return TV{Sc{app(sort, smtSym(g.sym), ts...)}, ty}
	}
	if m, ok := c.lets[name]; ok {
		return c.expandMacro(m, evalArgs())
	}
	if m, ok := c.e.W.Contracts.Macros[c.pkg.Path()+"::"+name]; ok {
		return c.expandMacro(m, evalArgs())
	}
	if sf, ok := c.e.W.Contracts.SpecFns[c.pkg.Path()+"::"+name]; ok {
		return c.specFnApp(c.pkg.Path(), sf, evalArgs())
	}
	// type conversion to a named type, or a package-level pure function
	if obj := c.pkg.Scope().Lookup(name); obj != nil {
		switch o := obj.(type) {
		case *types.TypeName:
			a := c.eval(n.Args[0])
			return TV{a.V, o.Type()}
		case *types.Func:
			return c.pureCall(o, evalArgs())
		}
	}
	c.fail("unknown function %q in spec", name)
	return TV{}
}

func (c *SpecCtx) methodOrQualifiedCall(s *ESel, args []Expr) TV {
	evalArgs := func() []TV {
		out := make([]TV, len(args))
		for i, a := range args {
			out[i] = c.eval(a)
		}
		return out
	}
	if id, ok := s.X.(*EIdent); ok {
		if _, isVar := c.vars[id.Name]; !isVar {
			found := false
			if c.at != nil {
				_, found = c.ssaName(id.Name)
			}
			if !found {
				for _, imp := range c.pkg.Imports() {
					if imp.Name() == id.Name || c.e.W.Aliases[c.pkg.Path()][id.Name] == imp.Path() {
						obj := imp.Scope().Lookup(s.F)
						switch o := obj.(type) {
						case *types.Func:
							return c.pureCall(o, evalArgs())
						case *types.TypeName:
							a := c.eval(args[0])
							return TV{a.V, o.Type()}
						}
						if m, ok := c.e.W.Contracts.Macros[imp.Path()+"::"+s.F]; ok {
							cc := c.child()
							cc.pkg = imp
							return cc.expandMacro(m, evalArgs())
						}
						if sf, ok := c.e.W.Contracts.SpecFns[imp.Path()+"::"+s.F]; ok {
							return c.specFnApp(imp.Path(), sf, evalArgs())
						}
						c.fail("%s.%s is not callable in specs", id.Name, s.F)
					}
				}
			}
		}
	}
	recv := c.eval(s.X)
	if recv.T == nil {
		c.fail("method call on untyped value")
	}
	if tv, ok := c.atomicLoad(recv, s.F); ok {
		return tv
	}
	obj, _, _ := types.LookupFieldOrMethod(recv.T, true, c.pkg, s.F)
	if obj == nil {
		obj = lookupMethodAnyPkg(recv.T, s.F)
	}
	fn, ok := obj.(*types.Func)
	if !ok {
		c.fail("no method %s on %s", s.F, recv.T)
	}
	return c.pureCall(fn, append([]TV{recv}, evalArgs()...))
}

func lookupMethodAnyPkg(t types.Type, name string) types.Object {
	ms := types.NewMethodSet(t)
	for i := 0; i < ms.Len(); i++ {
		if ms.At(i).Obj().Name() == name {
			return ms.At(i).Obj()
		}
	}
	if _, ok := t.Underlying().(*types.Pointer); !ok {
		ms = types.NewMethodSet(types.NewPointer(t))
		for i := 0; i < ms.Len(); i++ {
			if ms.At(i).Obj().Name() == name {
				return ms.At(i).Obj()
			}
		}
	}
	return nil
}

// pureCall applies the uninterpreted function standing for a pure Go function.
func (c *SpecCtx) pureCall(fn *types.Func, args []TV) TV {
	key := funcKey(fn)
	sig := fn.Type().(*types.Signature)
	heapDep := true
	if ext, ok := c.e.W.Contracts.Externs[key]; ok {
		switch ext.Kind {
		case "pure":
			heapDep = false
		case "hpure":
		default:
			c.fail("%s is declared %s, not usable in specs", key, ext.Kind)
		}
	} else if fc := c.e.W.Contracts.lookupFunc(fn); fc != nil {
		if !fc.Pure {
			c.fail("%s has a contract but is not declared pure", key)
		}
		heapDep = !fc.ValuePure
	} else if k, ok := defaultExternKind(key); ok && (k == "pure" || k == "hpure") {
		heapDep = k == "hpure"
	} else {
		c.fail("function %s is not declared pure", key)
	}
	var vals []Value
	for _, a := range args {
		vals = append(vals, a.V)
	}
	res := sig.Results()
	var rt types.Type
	if res.Len() == 1 {
		rt = res.At(0).Type()
	} else {
		rt = res
	}
	out := TV{c.e.pureApp(key, vals, rt, c.heap, heapDep), rt}
	c.functionAxioms(fn, key, args, out)
	return out
}

func funcKey(fn *types.Func) string {
	sig := fn.Type().(*types.Signature)
	if r := sig.Recv(); r != nil {
		return "(" + typeKey(r.Type()) + ")." + fn.Name()
	}
	if fn.Pkg() == nil {
		return fn.Name()
	}
	return fn.Pkg().Path() + "." + fn.Name()
}

// pureApp builds the application of the UF for a pure function.
func (e *Enc) pureApp(key string, args []Value, rt types.Type, h *HeapState, heapDep bool) Value {
	var leaves []Term
	var sorts []string
	for _, a := range args {
		for _, l := range flatten(a) {
			leaves = append(leaves, l)
			sorts = append(sorts, l.Sort)
		}
	}
	if heapDep {
		leaves = append(leaves, h.epoch)
		sorts = append(sorts, SInt)
	}
	rs := leafSorts(rt)
	out := make([]Term, len(rs))
	for i, s := range rs {
		name := fmt.Sprintf("pf$%s#%d", sanitize(key), i)
		e.declareFun(name, sorts, s)
		if len(leaves) == 0 {
			out[i] = Term{"(" + smtSym(name) + ")", s}
			out[i] = Term{smtSym(name), s}
		} else {
			out[i] = app(s, smtSym(name), leaves...)
		}
	}
	v, _ := unflatten(rt, out)
	return v
}

// specFnApp applies a package-level uninterpreted spec function.
func (c *SpecCtx) specFnApp(pkgPath string, sf *GhostFn, args []TV) TV {
	if len(args) != len(sf.Params) {
		c.fail("spec function %s expects %d arguments", sf.Name, len(sf.Params))
	}
	var leaves []Term
	var sorts []string
	for _, a := range args {
		for _, l := range flatten(a.V) {
			leaves = append(leaves, l)
			sorts = append(sorts, l.Sort)
		}
	}
	rs, rt := c.sortOfQVar(sf.Ret)
	name := "sf$" + sanitize(pkgPath) + "$" + sf.Name
	c.e.declareFun(name, sorts, rs)
	if len(leaves) == 0 {
		return TV{Sc{Term{smtSym(name), rs}}, rt}
	}
	return TV{Sc{app(rs, smtSym(name), leaves...)}, rt}
}

// atomicLoad models x.Load() on sync/atomic types in specs as a plain read of the cell.
func (c *SpecCtx) atomicLoad(recv TV, method string) (TV, bool) {
	if method != "Load" {
		return TV{}, false
	}
	t := recv.T
	if p, ok := t.Underlying().(*types.Pointer); ok {
		t = p.Elem()
	} else {
		return TV{}, false
	}
	n, ok := t.(*types.Named)
	if !ok || n.Obj().Pkg() == nil || n.Obj().Pkg().Path() != "sync/atomic" {
		return TV{}, false
	}
	st, ok := t.Underlying().(*types.Struct)
	if !ok {
		return TV{}, false
	}
	for i := 0; i < st.NumFields(); i++ {
		if st.Field(i).Name() == "v" {
			l := c.e.fieldLoc(recv.V.(Sc).T, t, i)
			v := c.e.load(c.heap, l)
			// result type from the Load method
			obj := lookupMethodAnyPkg(recv.T, "Load")
			var rt types.Type = st.Field(i).Type()
			if f, ok := obj.(*types.Func); ok {
				rt = f.Type().(*types.Signature).Results().At(0).Type()
			}
			if n.Obj().Name() == "Bool" {
				return TV{Sc{not(eq(v.(Sc).T, intLit(0)))}, mathBool}, true
			}
			return TV{v, rt}, true
		}
	}
	return TV{}, false
}

// functionAxioms: when a pure function with postconditions is applied in a specification to ground
// arguments, its postconditions (verified or trusted in its own contract) are made available.
func (c *SpecCtx) functionAxioms(fn *types.Func, key string, args []TV, out TV) {
	if c.depth > 3 {
		return
	}
	for _, a := range args {
		for _, l := range flatten(a.V) {
			if strings.Contains(l.S, "!q") {
				return
			}
		}
	}
	var ens []Clause
	var names []string
	pkg := fn.Pkg()
	var lets map[string]*Macro
	if fc := c.e.W.Contracts.lookupFunc(fn); fc != nil && fc.Pure {
		ens = fc.Ensures
		names = calleeParamNames(nil, fn, len(args), nil)
		lets = letsOf(fc)
	} else if ext, ok := c.e.W.Contracts.Externs[key]; ok {
		ens = ext.Ensures
		names = calleeParamNames(nil, fn, len(args), ext)
		lets = map[string]*Macro{}
	}
	if len(ens) == 0 {
		return
	}
	memo := key + "@" + c.heap.epoch.S
	for _, a := range args {
		memo += "|" + fmtValue(a.V)
	}
	if c.e.axiomMemo[memo] {
		return
	}
	c.e.axiomMemo[memo] = true
	cc := &SpecCtx{e: c.e, heap: c.heap, old: c.heap, vars: map[string]TV{}, pkg: pkg, lets: lets, ghost: map[string]ghostInst{}, depth: c.depth + 1, callee: true}
	if pkg == nil {
		cc.pkg = c.pkg
	}
	for i, n := range names {
		cc.vars[n] = args[i]
		cc.vars[fmt.Sprintf("a%d", i)] = args[i]
	}
	sig := fn.Type().(*types.Signature)
	rn := resultNames(sig)
	if sig.Results().Len() == 1 {
		cc.vars[rn[0]] = out
		cc.vars["result"] = out
		cc.vars["result0"] = out
	} else if tv, ok := out.V.(TupleV); ok {
		for i, n := range rn {
			cc.vars[n] = TV{tv.E[i], sig.Results().At(i).Type()}
			cc.vars[fmt.Sprintf("result%d", i)] = cc.vars[n]
		}
	}
	for _, en := range ens {
		t, err := cc.EvalBool(en.E)
		if err != nil {
			continue
		}
		c.e.assumeGlobal(t, "function axiom of "+key+": "+en.Src)
	}
}

// derefArrayPtr: array-typed fields are kept as pointers to their storage; when compared with an
// array value they are loaded.
func (c *SpecCtx) derefArrayPtr(a, b TV) (TV, TV) {
	isArrPtr := func(t types.Type) (types.Type, bool) {
		if t == nil {
			return nil, false
		}
		p, ok := t.Underlying().(*types.Pointer)
		if !ok {
			return nil, false
		}
		if _, ok := p.Elem().Underlying().(*types.Array); ok {
			return p.Elem(), true
		}
		return nil, false
	}
	isArr := func(t types.Type) bool {
		if t == nil {
			return false
		}
		_, ok := t.Underlying().(*types.Array)
		return ok
	}
	if et, ok := isArrPtr(a.T); ok && (isArr(b.T) || func() bool { _, ok := isArrPtr(b.T); return ok }()) {
		a = TV{c.e.load(c.heap, locOfRef(a.V.(Sc).T, et)), et}
	}
	if et, ok := isArrPtr(b.T); ok && isArr(a.T) {
		b = TV{c.e.load(c.heap, locOfRef(b.V.(Sc).T, et)), et}
	}
	return a, b
}

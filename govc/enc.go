package main

import (
	"fmt"
	"go/ast"
	"go/token"
	"go/types"
	"sort"
	"strings"

	"golang.org/x/tools/go/ssa"
)

type itemKind int

const (
	itDefine itemKind = iota
	itAssume
	itAssert
	itProbe
)

type Item struct {
	Kind  itemKind
	Text  string // define: full command; assume: formula; assert: formula "(=> reach goal)"
	Name  string // obligation name
	Desc  string
	Pos   token.Position
	Quant bool // formula contains quantifiers
	Term  bool // terminal assertion (path ends here): not assumed by later obligations
}

// World: program-wide state shared by all function encodings.
type World struct {
	Prog      *ssa.Program
	Fset      *token.FileSet
	Contracts *ContractSet
	Pkgs      map[string]*ssa.Package // by import path
	TypesPkgs map[string]*types.Package
	Aliases   map[string]map[string]string // package path -> import alias -> imported path
	tags      map[string]int
}

type loopInfo struct {
	header  *ssa.BasicBlock
	ordinal int
	body    map[*ssa.BasicBlock]bool
	backs   []*ssa.BasicBlock // sources of back edges
	writes  map[string]bool   // heap families written inside (from discovery pass); "*" = all
	lc      *LoopContract
	syn     ast.Node // loop statement (see loopSyntax)
	synDone bool
	region  map[*ssa.BasicBlock]bool
}

type Enc struct {
	sentinels    []Term
	unstatable   []string
	noCallsQuery bool // evaluating nocalls(): a pattern that matches no call is what is being claimed
	W            *World
	closureOf    map[string]*ssa.MakeClosure // closure constant -> the instruction that made it (methodvalue())
	fn           *ssa.Function
	fc           *FuncContract

	decls   []string
	declSet map[string]bool
	axioms  []string
	items   []Item

	vals  map[ssa.Value]Value
	locs  map[ssa.Value]Loc // statically known location of pointer-valued SSA values
	reach map[*ssa.BasicBlock]Term
	edges map[[2]int]Term
	hout  map[*ssa.BasicBlock]*HeapState
	entry *HeapState
	cur   *HeapState
	curB  *ssa.BasicBlock
	curR  Term

	loops     map[*ssa.BasicBlock]*loopInfo
	loopList  []*loopInfo
	discovery bool
	disc      map[*ssa.BasicBlock]map[string]bool // discovery result: header -> writes

	counters map[string]int
	idc      int
	notes    []string
	noteSet  map[string]bool
	assumed  []string // assumptions used (externs, axioms)
	assSet   map[string]bool

	names    map[string][]ssa.Value // source name -> values (debug refs)
	defers   []*ssa.Defer
	strlits  map[string]Term
	ghostUF  map[string]GhostFn
	lets     map[string]*Macro
	shortPkg string
	fnLabel  string
	callOrd  map[string]int
	retOrd   int
	obligs   int

	allocs    []Term
	ptrParams []Term
	ranges    map[*ssa.Range]*rangeState
	rangeKeys map[*ssa.Next]Term
	keyMemo   map[string]Term
	// loop ordinals named by the contract that the body does not have
	missingLoops []int
	// names asked for by calls("...") in the contract (validated against the calls the body makes)
	callQueries map[string]bool
	retOrder    map[*ssa.Return]int
	// loop whose own write set must not record the current write (entry counter bumped at its header)
	skipWriteFor *loopInfo
	famSorts     map[string]string
	backOrd      map[*ssa.BasicBlock]int
	selfGhost    map[string]ghostInst
	allWrites    map[string]bool
	axiomMemo    map[string]bool
	atOrd        map[string]int
	atOrdPat     map[string]int
	callKeys     map[string]string
}

func (w *World) tagFor(name string) int {
	if w.tags == nil {
		w.tags = map[string]int{}
	}
	if t, ok := w.tags[name]; ok {
		return t
	}
	t := len(w.tags) + 10
	w.tags[name] = t
	return t
}

func (e *Enc) tagFor(name string) int { return e.W.tagFor(name) }

func (e *Enc) nextID() int { e.idc++; return e.idc }

func (e *Enc) declare(name, sort string) Term {
	sym := smtSym(name)
	if !e.declSet[name] {
		e.declSet[name] = true
		e.decls = append(e.decls, fmt.Sprintf("(declare-fun %s () %s)", sym, sort))
	}
	return Term{sym, sort}
}

func (e *Enc) declareFun(name string, args []string, ret string) {
	if e.declSet[name] {
		return
	}
	e.declSet[name] = true
	e.decls = append(e.decls, fmt.Sprintf("(declare-fun %s (%s) %s)", smtSym(name), strings.Join(args, " "), ret))
}

func (e *Enc) axiom(f string) { e.axioms = append(e.axioms, "(assert "+f+")") }

func (e *Enc) freshConst(prefix, sort string) Term {
	return e.declare(fmt.Sprintf("%s!%d", prefix, e.nextID()), sort)
}

func (e *Enc) define(name string, t Term) Term {
	// constants and plain symbols need no definition
	if len(t.S) < 24 && !strings.ContainsAny(t.S, " (") {
		return t
	}
	sym := smtSym(name)
	if e.declSet[name] {
		sym = smtSym(fmt.Sprintf("%s!%d", name, e.nextID()))
	}
	e.declSet[name] = true
	if strings.Contains(t.S, "(ite ") {
		// keep quantifier patterns free of ite: introduce a constant constrained by an equation
		e.decls = append(e.decls, fmt.Sprintf("(declare-fun %s () %s)", sym, t.Sort))
		e.items = append(e.items, Item{Kind: itDefine, Text: fmt.Sprintf("(assert (= %s %s))", sym, t.S)})
		return Term{sym, t.Sort}
	}
	e.items = append(e.items, Item{Kind: itDefine, Text: fmt.Sprintf("(define-fun %s () %s %s)", sym, t.Sort, t.S)})
	return Term{sym, t.Sort}
}

func (e *Enc) defineValue(name string, v Value) Value {
	switch x := v.(type) {
	case Sc:
		return Sc{e.define(name, x.T)}
	case StructV:
		fs := make([]Value, len(x.F))
		for i, f := range x.F {
			fs[i] = e.defineValue(fmt.Sprintf("%s.%d", name, i), f)
		}
		return StructV{fs}
	case SliceV:
		return SliceV{e.define(name+".base", x.Base), e.define(name+".off", x.Off), e.define(name+".len", x.Len), e.define(name+".cap", x.Cap)}
	case TupleV:
		es := make([]Value, len(x.E))
		for i, f := range x.E {
			es[i] = e.defineValue(fmt.Sprintf("%s#%d", name, i), f)
		}
		return TupleV{es}
	case ArrayV:
		es := make([]Value, len(x.E))
		for i, f := range x.E {
			es[i] = e.defineValue(fmt.Sprintf("%s[%d]", name, i), f)
		}
		return ArrayV{es}
	}
	return v
}

func hasQuant(s string) bool {
	return strings.Contains(s, "(forall ") || strings.Contains(s, "(exists ")
}

func (e *Enc) assume(t Term, why string) {
	if t.S == "true" {
		return
	}
	f := implies(e.curR, t)
	e.items = append(e.items, Item{Kind: itAssume, Text: f.S, Desc: why, Quant: hasQuant(f.S)})
}

func (e *Enc) assumeGlobal(t Term, why string) {
	if t.S == "true" {
		return
	}
	e.items = append(e.items, Item{Kind: itAssume, Text: t.S, Desc: why, Quant: hasQuant(t.S)})
}

func (e *Enc) ordinal(kind string) int {
	e.counters[kind]++
	return e.counters[kind]
}

// assertOb records a proof obligation.
func (e *Enc) assertOb(name string, goal Term, desc string, pos token.Pos) {
	if e.discovery {
		return
	}
	if e.fc != nil && e.fc.AnchorsOnly && (strings.HasPrefix(name, "safe:") || strings.HasPrefix(name, "pre@")) {
		e.assume(goal, "assumed (anchorsonly): "+desc)
		e.assumption("safety checks and callee preconditions in " + e.fnLabel + " are assumed, only its anchored assertions are proved (anchorsonly)")
		return
	}
	f := implies(e.curR, goal)
	var p token.Position
	if pos.IsValid() {
		p = e.W.Fset.Position(pos)
	}
	e.obligs++
	term := strings.HasPrefix(name, "post#") || strings.HasPrefix(name, "loop") || strings.HasPrefix(name, "frame:") ||
		strings.HasPrefix(name, "calls-unmatched:") || strings.HasPrefix(name, "return-missing#") || strings.HasPrefix(name, "anchor-missing@") ||
		goal.S == "false" // an unprovable marker must not make later obligations vacuous
	e.items = append(e.items, Item{Kind: itAssert, Text: f.S, Name: e.fnLabel + "/" + name, Desc: desc, Pos: p, Quant: hasQuant(f.S), Term: term})
}

func (e *Enc) note(s string) {
	if !e.noteSet[s] {
		e.noteSet[s] = true
		e.notes = append(e.notes, s)
	}
}

func (e *Enc) assumption(s string) {
	if !e.assSet[s] {
		e.assSet[s] = true
		e.assumed = append(e.assumed, s)
	}
}

func (e *Enc) noteWrite(name string) {
	if !e.discovery {
		return
	}
	e.allWrites[name] = true
	if e.curB == nil {
		return
	}
	for _, li := range e.loopList {
		if li.body[e.curB] && li != e.skipWriteFor {
			if e.disc[li.header] == nil {
				e.disc[li.header] = map[string]bool{}
			}
			e.disc[li.header][name] = true
		}
	}
}

func (e *Enc) freshValue(prefix string, t types.Type) Value {
	v := e.freshValueNoRange(prefix, t)
	e.assume(rangeFact(v, t), "range of "+prefix)
	return v
}

func (e *Enc) freshValueNoRange(prefix string, t types.Type) Value {
	id := e.nextID()
	sorts := leafSorts(t)
	leaves := make([]Term, len(sorts))
	for i, s := range sorts {
		leaves[i] = e.declare(fmt.Sprintf("%s!%d.%d", prefix, id, i), s)
	}
	v, _ := unflatten(t, leaves)
	return v
}

func (e *Enc) strLit(s string) Term {
	if s == "" {
		return Term{"s.empty", SStr}
	}
	if t, ok := e.strlits[s]; ok {
		return t
	}
	name := fmt.Sprintf("strlit!%d", len(e.strlits))
	t := e.declare(name, SStr)
	e.strlits[s] = t
	var cs []string
	cs = append(cs, fmt.Sprintf("(= (s.len %s) %d)", t.S, len(s)))
	n := len(s)
	if n > 64 {
		n = 64
	}
	for i := 0; i < n; i++ {
		cs = append(cs, fmt.Sprintf("(= (s.at %s %d) %d)", t.S, i, s[i]))
	}
	e.axioms = append(e.axioms, "(assert (and "+strings.Join(cs, " ")+")) ; "+fmt.Sprintf("%q", s))
	return t
}

// ---------------------------------------------------------------------------
// CFG analysis

func (e *Enc) analyseLoops() {
	fn := e.fn
	e.loops = map[*ssa.BasicBlock]*loopInfo{}
	for _, b := range fn.Blocks {
		for _, s := range b.Succs {
			if s.Dominates(b) {
				li := e.loops[s]
				if li == nil {
					li = &loopInfo{header: s, body: map[*ssa.BasicBlock]bool{s: true}}
					e.loops[s] = li
				}
				li.backs = append(li.backs, b)
				// natural loop
				stack := []*ssa.BasicBlock{b}
				for len(stack) > 0 {
					x := stack[len(stack)-1]
					stack = stack[:len(stack)-1]
					if li.body[x] {
						continue
					}
					li.body[x] = true
					for _, p := range x.Preds {
						stack = append(stack, p)
					}
				}
			}
		}
	}
	var hs []*ssa.BasicBlock
	for h := range e.loops {
		hs = append(hs, h)
	}
	sort.Slice(hs, func(i, j int) bool { return hs[i].Index < hs[j].Index })
	e.loopList = nil
	for i, h := range hs {
		li := e.loops[h]
		li.ordinal = i + 1
		if e.fc != nil {
			li.lc = e.fc.Loops[i+1]
		}
		e.loopList = append(e.loopList, li)
	}
}

func (e *Enc) isBackEdge(from, to *ssa.BasicBlock) bool {
	return to.Dominates(from)
}

// topological order of the DAG obtained by removing back edges
func (e *Enc) topoOrder() []*ssa.BasicBlock {
	fn := e.fn
	visited := map[*ssa.BasicBlock]bool{}
	var post []*ssa.BasicBlock
	var dfs func(b *ssa.BasicBlock)
	dfs = func(b *ssa.BasicBlock) {
		visited[b] = true
		for _, s := range b.Succs {
			if e.isBackEdge(b, s) || visited[s] {
				continue
			}
			dfs(s)
		}
		post = append(post, b)
	}
	dfs(fn.Blocks[0])
	// recover block (if any) is ignored
	for i, j := 0, len(post)-1; i < j; i, j = i+1, j-1 {
		post[i], post[j] = post[j], post[i]
	}
	return post
}

package main

// Real-build slice of package control.
//
// control only type-checks under the build tag dae_stub_ebpf (the bpf2go output is not in the tree), and in
// that build bpf_stub.go replaces a few pure encoders of control/bpf_utils.go by empty stubs. The encoders
// are the code that runs in production, so on every load their declarations are copied verbatim (source
// text, byte for byte) from bpf_utils.go into an overlay file of the stub build, and the same-named stub
// declarations are cut out of an overlay copy of bpf_stub.go. Nothing is written into /repo.
//
// Copied: the functions named in realSliceFuncs. Dropped: every other declaration of bpf_utils.go (they
// need the generated bpfObjects/bpf2go types and cilium/ebpf loading, which this build stubs).

import (
	"bytes"
	"fmt"
	"go/ast"
	"go/parser"
	"go/token"
	"os"
	"path/filepath"
	"strings"
)

var realSliceFuncs = map[string]bool{
	"bpfPortRange.Encode": true,
	"ParsePortRange":      true,
	"cidrToBpfLpmKey":     true,
}

func declKey(fd *ast.FuncDecl) string {
	if fd.Recv != nil && len(fd.Recv.List) == 1 {
		t := fd.Recv.List[0].Type
		if st, ok := t.(*ast.StarExpr); ok {
			t = st.X
		}
		if id, ok := t.(*ast.Ident); ok {
			return id.Name + "." + fd.Name.Name
		}
	}
	return fd.Name.Name
}

func realSliceOverlay() (map[string][]byte, []string, error) {
	utils := filepath.Join(repoDir, "control/bpf_utils.go")
	stub := filepath.Join(repoDir, "control/bpf_stub.go")
	us, err := os.ReadFile(utils)
	if err != nil {
		return nil, nil, err
	}
	ss, err := os.ReadFile(stub)
	if err != nil {
		return nil, nil, err
	}
	fset := token.NewFileSet()
	uf, err := parser.ParseFile(fset, utils, us, parser.ParseComments)
	if err != nil {
		return nil, nil, err
	}
	sf, err := parser.ParseFile(fset, stub, ss, parser.ParseComments)
	if err != nil {
		return nil, nil, err
	}
	var out bytes.Buffer
	out.WriteString("//go:build dae_stub_ebpf\n\n// Generated in memory by govc on every run: verbatim copies of declarations of control/bpf_utils.go.\n\npackage control\n\nimport (\n")
	// imports used by the copied text (selected by textual use)
	var copied []string
	var bodies bytes.Buffer
	for _, d := range uf.Decls {
		fd, ok := d.(*ast.FuncDecl)
		if !ok || !realSliceFuncs[declKey(fd)] {
			continue
		}
		start := fset.Position(fd.Pos()).Offset
		if fd.Doc != nil {
			start = fset.Position(fd.Doc.Pos()).Offset
		}
		end := fset.Position(fd.End()).Offset
		// keep the original line for positions in reports
		fmt.Fprintf(&bodies, "//line %s:%d\n", utils, fset.Position(fd.Pos()).Line)
		bodies.Write(us[start:end])
		bodies.WriteString("\n\n")
		copied = append(copied, declKey(fd))
	}
	if len(copied) != len(realSliceFuncs) {
		return nil, nil, fmt.Errorf("real-build slice: expected %d functions in bpf_utils.go, found %v", len(realSliceFuncs), copied)
	}
	for _, im := range uf.Imports {
		path := strings.Trim(im.Path.Value, `"`)
		name := filepath.Base(path)
		if im.Name != nil {
			name = im.Name.Name
		}
		if bytes.Contains(bodies.Bytes(), []byte(name+".")) {
			if im.Name != nil {
				fmt.Fprintf(&out, "\t%s %s\n", im.Name.Name, im.Path.Value)
			} else {
				fmt.Fprintf(&out, "\t%s\n", im.Path.Value)
			}
		}
	}
	out.WriteString(")\n\n")
	out.Write(bodies.Bytes())

	// cut the stubs out of bpf_stub.go (replace their text by blank lines so that positions are stable)
	stubSrc := append([]byte{}, ss...)
	cut := 0
	for _, d := range sf.Decls {
		fd, ok := d.(*ast.FuncDecl)
		if !ok || !realSliceFuncs[declKey(fd)] {
			continue
		}
		s, e := fset.Position(fd.Pos()).Offset, fset.Position(fd.End()).Offset
		for i := s; i < e; i++ {
			if stubSrc[i] != '\n' {
				stubSrc[i] = ' '
			}
		}
		cut++
	}
	if cut != len(realSliceFuncs) {
		return nil, nil, fmt.Errorf("real-build slice: expected %d stubs in bpf_stub.go, cut %d", len(realSliceFuncs), cut)
	}
	ov := map[string][]byte{
		stub: stubSrc,
		filepath.Join(repoDir, "control/zz_verif_realslice.go"): out.Bytes(),
	}
	return ov, copied, nil
}

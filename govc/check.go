package main

import (
	"bufio"
	"encoding/json"
	"fmt"
	"go/types"
	"golang.org/x/tools/go/ssa"
	"os"
	"path/filepath"
	"sort"
	"strconv"
	"strings"
	"time"
)

type PropFunc struct {
	Pkg  string `json:"pkg"`  // package path relative to the module root, e.g. "control"
	Name string `json:"name"` // contract name, e.g. "(*RoutingMatcher).Match"
}

type PropConfig struct {
	ID          string     `json:"id"`
	Level       string     `json:"level"` // proof | other
	Functions   []PropFunc `json:"functions"`
	Extra       []string   `json:"extra"` // extra engines: "layout", "bounded-trie", ...
	TrustedBase []string   `json:"trusted_base"`
	Explanation string     `json:"explanation"`
	Undecided   []string   `json:"undecided_clauses"`
}

func loadPropConfigs() (map[string]*PropConfig, error) {
	b, err := os.ReadFile(filepath.Join(verifDir(), "props.json"))
	if err != nil {
		return nil, err
	}
	var list []*PropConfig
	if err := json.Unmarshal(b, &list); err != nil {
		return nil, err
	}
	m := map[string]*PropConfig{}
	for _, p := range list {
		m[p.ID] = p
	}
	return m, nil
}

type knownFinding struct {
	Kind       string // known | fixed
	Property   string
	Obligation string
	Text       string
}

func loadKnownFindings() []knownFinding {
	f, err := os.Open(filepath.Join(verifDir(), "known_findings.txt"))
	if err != nil {
		return nil
	}
	defer f.Close()
	var out []knownFinding
	sc := bufio.NewScanner(f)
	for sc.Scan() {
		line := strings.TrimSpace(sc.Text())
		if line == "" || strings.HasPrefix(line, "#") {
			continue
		}
		kf := knownFinding{Text: line}
		switch {
		case strings.HasPrefix(line, "known:"):
			kf.Kind = "known"
		case strings.HasPrefix(line, "fixed:"):
			kf.Kind = "fixed"
		default:
			continue
		}
		for _, f := range strings.Fields(line) {
			if strings.HasPrefix(f, "property=") {
				kf.Property = strings.TrimPrefix(f, "property=")
			}
			if strings.HasPrefix(f, "obligation=") {
				kf.Obligation = strings.TrimPrefix(f, "obligation=")
			}
		}
		out = append(out, kf)
	}
	return out
}

type replayFile struct {
	Property    string   `json:"property"`
	Obligation  string   `json:"obligation"`
	Package     string   `json:"package"`
	Function    string   `json:"function"`
	Clause      string   `json:"clause"`
	Position    string   `json:"position,omitempty"`
	Status      string   `json:"solver_status"`
	Solver      string   `json:"solver"`
	SolverOut   string   `json:"solver_output"`
	Model       string   `json:"candidate_model,omitempty"`
	Inputs      []string `json:"model_inputs,omitempty"`
	Replay      string   `json:"replay_result"`
	ReplayLog   string   `json:"replay_log,omitempty"`
	Reproduced  bool     `json:"reproduced_on_real_code"`
	QueryFile   string   `json:"query_file,omitempty"`
	GeneratedAt string   `json:"generated_at"`
}

func cmdCheck(args []string) int {
	if len(args) < 1 {
		fmt.Fprintln(os.Stderr, "usage: govc check <id> [--tier quick|thorough]")
		return 2
	}
	id := args[0]
	tier := os.Getenv("VERIF_TIER")
	if tier == "" {
		tier = "quick"
	}
	for i := 1; i < len(args); i++ {
		if args[i] == "--tier" && i+1 < len(args) {
			tier = args[i+1]
			i++
		}
	}
	seed := 0
	if s := os.Getenv("VERIF_SEED"); s != "" {
		seed, _ = strconv.Atoi(s)
	}
	cfgs, err := loadPropConfigs()
	if err != nil {
		fmt.Println("UNDECIDED: cannot read props.json:", err)
		return 2
	}
	cfg := cfgs[id]
	if cfg == nil {
		fmt.Println("UNDECIDED: unknown property", id)
		return 2
	}
	return runCheck(cfg, tier, seed)
}

func runCheck(cfg *PropConfig, tier string, seed int) int {
	t0 := time.Now()
	timeout := 30
	if tier == "thorough" {
		timeout = 90
	}
	pats := map[string]bool{}
	for _, f := range cfg.Functions {
		pats["./"+f.Pkg] = true
	}
	var patterns []string
	for p := range pats {
		patterns = append(patterns, p)
	}
	sort.Strings(patterns)
	var reports []*FuncReport
	var undecided []string
	var w *World
	if len(patterns) > 0 {
		var err error
		w, err = loadWorld(patterns, nil)
		if err != nil {
			fmt.Println("UNDECIDED:", err)
			return 2
		}
		for _, f := range cfg.Functions {
			pkgPath := modPath + "/" + f.Pkg
			fn := w.findFunc(pkgPath, f.Name)
			if fn == nil {
				undecided = append(undecided, fmt.Sprintf("function %s.%s under contract not found", f.Pkg, f.Name))
				continue
			}
			fc := w.Contracts.Funcs[pkgPath+"::"+f.Name]
			if fc == nil {
				undecided = append(undecided, fmt.Sprintf("no contract for %s.%s", f.Pkg, f.Name))
				continue
			}
			if fc.Trusted {
				continue
			}
			rep := w.VerifyFunc(fn, fc, timeout)
			rep.PkgPath = pkgPath
			reports = append(reports, rep)
			if rep.Err != nil {
				undecided = append(undecided, rep.Err.Error())
			}
			for _, v := range rep.Vacuous {
				undecided = append(undecided, "vacuous contract: "+v)
			}
			for _, u := range rep.Unstatable {
				undecided = append(undecided, "clause cannot be stated on the current code: "+u)
			}
		}
	}
	// extra engines
	var extras []*FuncReport
	for _, x := range cfg.Extra {
		rep := runExtra(x, cfg, tier, w)
		if rep != nil {
			extras = append(extras, rep)
			if rep.Err != nil {
				undecided = append(undecided, rep.Err.Error())
			}
		}
	}
	all := append(append([]*FuncReport{}, reports...), extras...)

	known := loadKnownFindings()
	total, discharged := 0, 0
	var failed []ObResult
	failedFn := map[string]*FuncReport{}
	solverMs := map[string]int64{}
	var obJSON []ObResult
	for _, r := range all {
		for _, o := range r.Obligations {
			total++
			solverMs[o.Solver] += o.Ms
			if o.Status == "unsat" || o.Status == "ok" {
				discharged++
			} else {
				failed = append(failed, o)
				failedFn[o.Name] = r
			}
			obJSON = append(obJSON, o)
		}
	}
	if total == 0 && len(undecided) == 0 {
		undecided = append(undecided, "no obligations generated")
	}

	// violations
	violations := 0
	knownHits := 0
	var outLines []string
	replayDir := filepath.Join(verifDir(), "replays", cfg.ID)
	for _, o := range failed {
		isKnown := false
		for _, k := range known {
			if k.Kind == "known" && k.Property == cfg.ID && k.Obligation == o.Name {
				isKnown = true
				outLines = append(outLines, fmt.Sprintf("KNOWN-FINDING: property=%s %s", cfg.ID, strings.TrimPrefix(k.Text, "known: ")))
			}
		}
		if isKnown {
			knownHits++
			continue
		}
		violations++
		os.MkdirAll(replayDir, 0o755)
		rf := replayFile{Property: cfg.ID, Obligation: o.Name, Clause: o.Desc, Position: o.Pos, Status: o.Status, Solver: o.Solver,
			SolverOut: truncate(o.Output, 4000), Model: truncate(o.Model, 20000), GeneratedAt: time.Now().UTC().Format(time.RFC3339)}
		if r := failedFn[o.Name]; r != nil {
			rf.Package = r.PkgPath
			rf.Function = r.Name
		}
		reproduced := false
		if o.Status == "mismatch" && strings.HasPrefix(o.Name, "layout:") && !strings.HasPrefix(o.Name, "layout:c-anchor:") {
			// computed from the two real declarations (clang's layout of the C one, go/types' of the Go one): the
			// disagreeing pair is the failing case, no solver abstraction is involved
			reproduced = true
			rf.Replay = "disagreement between the real declarations: " + o.Model
		} else if o.Status == "bounded-violation" {
			reproduced = true
			rf.Replay = "found by the bounded enumeration on the real code: " + o.Model
			rf.ReplayLog = o.Output
		} else if w != nil && rf.Function != "" {
			res := tryReplay(w, &rf, o)
			reproduced = res
		}
		rf.Reproduced = reproduced
		if !reproduced && rf.Replay == "" {
			rf.Replay = "no replay adapter produced a failing input; the obligation is reported on the strength of the failed proof"
		}
		path := filepath.Join(replayDir, sanitize(o.Name)+".json")
		if o.Query != "" {
			qf := filepath.Join(replayDir, sanitize(o.Name)+".smt2")
			os.WriteFile(qf, []byte(hdrZ3+o.Query), 0o644)
			rf.QueryFile = qf
		}
		b, _ := json.MarshalIndent(rf, "", " ")
		os.WriteFile(path, b, 0o644)
		line := fmt.Sprintf("VIOLATION property=%s replay=%s", cfg.ID, path)
		if !reproduced {
			line += " no-failing-input-found"
		}
		outLines = append(outLines, line)
	}

	// evidence
	if tier == "thorough" && os.Getenv("GOVC_NO_CORPUS") == "" && violations == 0 && len(undecided) == 0 {
		corpusResults = runCorpus(cfg.ID)
	}
	writeEvidence(cfg, tier, seed, all, total, discharged, violations, knownHits, solverMs, undecided, time.Since(t0).Seconds())

	for _, r := range all {
		ok := 0
		for _, o := range r.Obligations {
			if o.Status == "unsat" || o.Status == "ok" {
				ok++
			}
		}
		fmt.Printf("%-70s %d/%d obligations discharged\n", r.Label, ok, len(r.Obligations))
	}
	for _, o := range failed {
		fmt.Printf("FAILED %s [%s %s] %s %s\n", o.Name, o.Status, o.Solver, o.Pos, o.Desc)
	}
	for _, l := range outLines {
		fmt.Println(l)
	}
	if len(undecided) > 0 {
		for _, u := range undecided {
			fmt.Println("UNDECIDED:", u)
		}
		if violations > 0 {
			return 1
		}
		return 2
	}
	fmt.Printf("property %s: %d/%d obligations discharged, %d violations, %d known findings, %.1fs\n", cfg.ID, discharged, total, violations, knownHits, time.Since(t0).Seconds())
	if violations > 0 {
		return 1
	}
	return 0
}

func truncate(s string, n int) string {
	if len(s) > n {
		return s[:n] + "...[truncated]"
	}
	return s
}

var corpusResults []corpusResult

func writeEvidence(cfg *PropConfig, tier string, seed int, all []*FuncReport, total, discharged, violations, knownHits int, solverMs map[string]int64, undecided []string, wall float64) {
	type fnInfo struct {
		Name        string   `json:"name"`
		Mode        string   `json:"integer_mode"`
		Modelled    string   `json:"modelled"`
		Blocks      int      `json:"ssa_blocks"`
		Loops       int      `json:"loops"`
		Obligations int      `json:"obligations"`
		Discharged  int      `json:"discharged"`
		Notes       []string `json:"abstractions,omitempty"`
	}
	var fns []fnInfo
	assume := map[string]bool{}
	var obs []ObResult
	var samples []map[string]string
	for _, r := range all {
		fi := fnInfo{Name: r.Label, Mode: "Int (mathematical integers constrained to the Go type's range; wrap-around explicit)", Blocks: r.Blocks, Loops: r.Loops, Notes: r.Notes}
		if strings.HasPrefix(r.Label, "bounded:") {
			fi.Mode = "n/a: bounded enumeration executed on the real code (machine arithmetic)"
		} else if strings.HasPrefix(r.Label, "layout:") {
			fi.Mode = "n/a: ground equalities decided by evaluation (clang record layouts vs go/types sizes)"
		}
		fi.Modelled = "fully"
		if len(r.Notes) > 0 {
			fi.Modelled = "partially (see abstractions)"
		}
		for _, o := range r.Obligations {
			fi.Obligations++
			if o.Status == "unsat" || o.Status == "ok" {
				fi.Discharged++
			}
			obs = append(obs, o)
			if len(samples) < 3 && o.Query != "" && o.Status == "unsat" {
				samples = append(samples, map[string]string{"obligation": o.Name, "clause": o.Desc, "smtlib_tail": tailLines(o.Query, 6)})
			}
		}
		for _, a := range r.Assumptions {
			assume[a] = true
		}
		fns = append(fns, fi)
	}
	if len(samples) == 0 {
		for _, o := range obs {
			samples = append(samples, map[string]string{"obligation": o.Name, "clause": o.Desc, "status": o.Status})
			if len(samples) >= 3 {
				break
			}
		}
	}
	var assumptions []string
	for a := range assume {
		assumptions = append(assumptions, a)
	}
	sort.Strings(assumptions)
	assumptions = append(assumptions, cfg.TrustedBase...)
	for _, u := range cfg.Undecided {
		assumptions = append(assumptions, "NOT DECIDED by this check: "+u)
	}
	boundedN := 0
	var boundedDesc []string
	for _, o := range obs {
		if strings.HasPrefix(o.Name, "bounded:") {
			boundedN++
			boundedDesc = append(boundedDesc, o.Desc)
		}
	}
	evalN := 0
	for _, o := range obs {
		if strings.HasPrefix(o.Name, "layout:") && (o.Status == "ok" || o.Status == "unsat") {
			evalN++
		}
	}
	cov := map[string]interface{}{
		"bounded_standins":         boundedN,
		"bounded_descriptions":     boundedDesc,
		"proved_obligations":       discharged - boundedN - evalN,
		"evaluated_obligations":    evalN,
		"obligations":              total,
		"discharged":               discharged,
		"checker_cmd":              "/verif/bin/govc check " + cfg.ID + " --tier " + tier,
		"trusted_base":             append([]string{"govc VC generator (/verif/govc): SSA-to-SMT translation, Go memory model of DESIGN.md §2.2", "go/ssa (x/tools v0.50.0) and go/types", "z3 5.1.0, z3 4.8.12, cvc5 1.0.3 (an obligation counts as discharged on the first unsat)"}, cfg.TrustedBase...),
		"explanation":              cfg.Explanation,
		"functions_under_contract": fns,
		"obligation_results":       obs,
		"solver_totals_ms":         solverMs,
		"samples":                  samples,
		"known_findings_reported":  knownHits,
		"undecided":                undecided,
		"evaluations":              total,
		"distinct_nontrivial":      discharged,
		"mustfail_corpus":          corpusSummary(),
		"rule":                     "one SMT query per named proof obligation generated from the current source of the functions under contract; an obligation is non-trivial when it is not syntactically `true` (trivial ones are not emitted) and distinct by name",
	}
	ev := map[string]interface{}{
		"property_id": cfg.ID,
		"tier":        tier,
		"seed":        seed,
		"level":       cfg.Level,
		"coverage":    cov,
		"assumptions": assumptions,
		"wall_s":      wall,
		"violations":  violations,
	}
	os.MkdirAll(filepath.Join(verifDir(), "evidence"), 0o755)
	b, _ := json.MarshalIndent(ev, "", " ")
	os.WriteFile(filepath.Join(verifDir(), "evidence", cfg.ID+".json"), b, 0o644)
}

func tailLines(s string, n int) string {
	lines := strings.Split(strings.TrimSpace(s), "\n")
	if len(lines) > n {
		lines = lines[len(lines)-n:]
	}
	out := strings.Join(lines, "\n")
	return truncate(out, 3000)
}

// govc replay <file>: re-check the obligation recorded in a replay file against the current tree.
func cmdReplay(args []string) int {
	if len(args) < 1 {
		fmt.Fprintln(os.Stderr, "usage: govc replay <file>")
		return 2
	}
	b, err := os.ReadFile(args[0])
	if err != nil {
		fmt.Println("cannot read", args[0], err)
		return 2
	}
	var rf replayFile
	if err := json.Unmarshal(b, &rf); err != nil {
		fmt.Println("bad replay file:", err)
		return 2
	}
	fmt.Printf("property %s obligation %s\nclause: %s\nrecorded status: %s (%s)\nreplay: %s\n", rf.Property, rf.Obligation, rf.Clause, rf.Status, rf.Solver, rf.Replay)
	if rf.Function == "" || !strings.HasPrefix(rf.Package, modPath) {
		return 1
	}
	rel := strings.TrimPrefix(strings.TrimPrefix(rf.Package, modPath), "/")
	w, err := loadWorld([]string{"./" + rel}, nil)
	if err != nil {
		fmt.Println("UNDECIDED:", err)
		return 2
	}
	fn := w.findFunc(rf.Package, rf.Function)
	if fn == nil {
		fmt.Println("function not found any more")
		return 2
	}
	rep := w.VerifyFunc(fn, w.Contracts.Funcs[rf.Package+"::"+rf.Function], 20)
	for _, o := range rep.Obligations {
		if o.Name == rf.Obligation {
			fmt.Printf("current status: %s (%s, %d ms)\n", o.Status, o.Solver, o.Ms)
			if o.Status == "unsat" {
				return 0
			}
			return 1
		}
	}
	fmt.Println("obligation no longer generated")
	return 2
}

// cmdSweep: zero-annotation safety sweep. Every function of the given packages that has no contract is
// verified against the default contract (anything may be modified, dynamic calls have no effect, nil
// dereferences and explicit panics not checked): the obligations left are index, slice, division and shift
// safety. Failures are CANDIDATES to be triaged by hand (missing preconditions look the same as defects);
// a sweep is never part of a registered check.
func cmdSweep(args []string) {
	var pats []string
	for _, a := range args {
		pats = append(pats, "./"+a)
	}
	w, err := loadWorld(pats, nil)
	if err != nil {
		fmt.Println("UNDECIDED:", err)
		return
	}
	total, failed := 0, 0
	for _, a := range args {
		pkgPath := modPath + "/" + a
		sp := w.Pkgs[pkgPath]
		if sp == nil {
			continue
		}
		var fns []*ssa.Function
		for _, m := range sp.Members {
			switch x := m.(type) {
			case *ssa.Function:
				fns = append(fns, x)
			case *ssa.Type:
				for _, t := range []types.Type{x.Type(), types.NewPointer(x.Type())} {
					ms := w.Prog.MethodSets.MethodSet(t)
					for i := 0; i < ms.Len(); i++ {
						if f := w.Prog.MethodValue(ms.At(i)); f != nil && f.Pkg == sp && f.Synthetic == "" {
							fns = append(fns, f)
						}
					}
				}
			}
		}
		seen := map[*ssa.Function]bool{}
		var all []*ssa.Function
		var add func(f *ssa.Function)
		add = func(f *ssa.Function) {
			if seen[f] || len(f.Blocks) == 0 {
				return
			}
			seen[f] = true
			all = append(all, f)
			for _, an := range f.AnonFuncs {
				add(an)
			}
		}
		for _, f := range fns {
			add(f)
		}
		sort.Slice(all, func(i, j int) bool { return all[i].String() < all[j].String() })
		for _, f := range all {
			name := contractName(f)
			if w.Contracts.Funcs[pkgPath+"::"+name] != nil || strings.HasPrefix(f.Name(), "init") {
				continue
			}
			fc := &FuncContract{Name: name, ModAll: true, DynNoEffect: true, NoNilCheck: true, MayPanic: true}
			rep := w.VerifyFunc(f, fc, 10)
			if rep.Err != nil {
				fmt.Printf("SKIP %s: %v\n", rep.Label, truncate(rep.Err.Error(), 120))
				continue
			}
			for _, o := range rep.Obligations {
				if !strings.Contains(o.Name, "/safe:") {
					continue
				}
				total++
				if o.Status != "unsat" {
					failed++
					fmt.Printf("CANDIDATE %s [%s] %s %s\n", o.Name, o.Status, o.Pos, o.Desc)
				}
			}
		}
	}
	fmt.Printf("sweep: %d safety obligations, %d candidates\n", total, failed)
}

func corpusSummary() map[string]interface{} {
	if corpusResults == nil {
		return map[string]interface{}{"run": false, "note": "the must-fail corpus (/verif/seeded) is exercised in the thorough tier only"}
	}
	caught := 0
	for _, r := range corpusResults {
		if r.Caught {
			caught++
		}
	}
	return map[string]interface{}{"run": true, "seeds": len(corpusResults), "caught": caught, "results": corpusResults}
}

package main

import (
	"fmt"
	"go/ast"
	"go/token"
	"go/types"
	"sort"
	"strings"

	"golang.org/x/tools/go/ssa"
)

// lookupFunc finds the contract of a function by its types object.
func (cs *ContractSet) lookupFunc(fn *types.Func) *FuncContract {
	if fn.Pkg() == nil {
		return nil
	}
	sig := fn.Type().(*types.Signature)
	name := fn.Name()
	if r := sig.Recv(); r != nil {
		rt := r.Type()
		ptr := ""
		if p, ok := rt.(*types.Pointer); ok {
			rt = p.Elem()
			ptr = "*"
		}
		tn := ""
		if n, ok := rt.(*types.Named); ok {
			tn = n.Obj().Name()
		}
		name = "(" + ptr + tn + ")." + fn.Name()
	}
	return cs.Funcs[fn.Pkg().Path()+"::"+name]
}

// contractName gives the name used in contract files for an SSA function.
func contractName(fn *ssa.Function) string {
	if fn.Parent() != nil {
		// anonymous function: Parent$N
		return contractName(fn.Parent()) + strings.TrimPrefix(fn.Name(), fn.Parent().Name())
	}
	if recv := fn.Signature.Recv(); recv != nil {
		rt := recv.Type()
		ptr := ""
		if p, ok := rt.(*types.Pointer); ok {
			rt = p.Elem()
			ptr = "*"
		}
		if n, ok := rt.(*types.Named); ok {
			return "(" + ptr + n.Obj().Name() + ")." + fn.Name()
		}
	}
	return fn.Name()
}

func (cs *ContractSet) lookupSSA(fn *ssa.Function) *FuncContract {
	if fn.Pkg == nil {
		if o := fn.Origin(); o != nil && o.Pkg != nil {
			return cs.Funcs[o.Pkg.Pkg.Path()+"::"+contractName(o)]
		}
		return nil
	}
	return cs.Funcs[fn.Pkg.Pkg.Path()+"::"+contractName(fn)]
}

// defaultExternKind: effect class of functions without contract or extern declaration.
func defaultExternKind(key string) (string, bool) {
	// key: "pkg/path.Func" or "(pkg/path.T).M" / "(*pkg/path.T).M"
	k := strings.TrimPrefix(key, "(")
	k = strings.TrimPrefix(k, "*")
	pkg := k
	if i := strings.LastIndex(k, "/"); i >= 0 {
		rest := k[i+1:]
		if j := strings.Index(rest, "."); j >= 0 {
			pkg = k[:i+1+j]
		}
	} else if j := strings.Index(k, "."); j >= 0 {
		pkg = k[:j]
	}
	if strings.HasPrefix(key, "(*github.com/sirupsen/logrus.") && (strings.Contains(key, ").Panic") || strings.Contains(key, ").Fatal")) {
		return "noreturn", true
	}
	switch key {
	case "time.Now", "time.Since", "time.Until", "time.After", "time.NewTimer", "time.AfterFunc", "time.Sleep":
		return "noeffect", true
	case "(error).Error":
		return "hpure", true
	case "(*sync.Once).Do", "(*sync.Map).Range":
		return "havoc", true
	}
	switch pkg {
	case "math", "math/bits", "net/netip", "time", "unicode", "strings", "strconv", "unicode/utf8", "path", "path/filepath", "net/url":
		return "pure", true
	case "bytes", "encoding/binary", "slices", "net", "regexp", "github.com/dlclark/regexp2":
		return "hpure", true
	case "fmt", "errors", "log", "github.com/sirupsen/logrus", "context", "sync", "runtime", "math/rand", "math/rand/v2", "os/signal",
		"github.com/daeuniverse/outbound/pool", "github.com/daeuniverse/outbound/pkg/fastrand":
		return "noeffect", true
	}
	return "", false
}

func shortName(key string) string {
	// last path element based short name for obligation labels
	k := key
	if i := strings.LastIndex(k, "/"); i >= 0 {
		k = k[i+1:]
		if strings.HasPrefix(key, "(*") {
			k = "(*" + k
		} else if strings.HasPrefix(key, "(") {
			k = "(" + k
		}
	}
	return k
}

// countBuiltin: the effectful builtins take part in calls("builtin:<name>") like ordinary callees.
func countBuiltin(e *Enc, name string) {
	switch name {
	case "append", "copy", "delete", "close", "clear":
		if e.fc != nil {
			e.bumpCallCount("builtin:" + name)
		}
	}
}

func (e *Enc) call(site ssa.Instruction, cc *ssa.CallCommon, rt types.Type) Value {
	// builtins
	if b, ok := cc.Value.(*ssa.Builtin); ok {
		if e.fc != nil && len(e.fc.AtCalls) > 0 {
			var bargs []Value
			var btypes []types.Type
			for _, a := range cc.Args {
				bargs = append(bargs, e.val(a))
				btypes = append(btypes, a.Type())
			}
			e.atCallAsserts(site, "builtin:"+b.Name(), bargs, btypes)
			countBuiltin(e, b.Name())
			r := e.builtin(site, b, cc, rt)
			e.atCallAssertsPhase(site, "builtin:"+b.Name(), bargs, btypes, true, r, rt)
			return r
		}
		countBuiltin(e, b.Name())
		return e.builtin(site, b, cc, rt)
	}
	var args []Value
	var argTypes []types.Type
	var key string
	var calleeSSA *ssa.Function
	var calleeObj *types.Func
	if cc.IsInvoke() {
		args = append(args, e.val(cc.Value))
		argTypes = append(argTypes, cc.Value.Type())
		calleeObj = cc.Method
		key = "(" + typeKey(cc.Value.Type()) + ")." + cc.Method.Name()
		e.assumption("receivers of interface method calls are non-nil (not checked)")
	} else if f := cc.StaticCallee(); f != nil {
		calleeSSA = f
		if o, ok := f.Object().(*types.Func); ok {
			calleeObj = o
			key = funcKey(o)
		} else if f.Origin() != nil {
			if o, ok := f.Origin().Object().(*types.Func); ok {
				calleeObj = o
				key = funcKey(o)
			}
		}
		if key == "" {
			key = f.String()
		}
		if mc, ok := cc.Value.(*ssa.MakeClosure); ok {
			for _, b := range mc.Bindings {
				_ = b
			}
		}
	} else {
		key = "dynamic call"
	}
	for _, a := range cc.Args {
		args = append(args, e.val(a))
		argTypes = append(argTypes, a.Type())
	}

	if cc.StaticCallee() == nil && !cc.IsInvoke() {
		key = callKeyOf(cc)
	}
	e.atCallAsserts(site, key, args, argTypes)
	e.bumpCallCount(key)

	// special models
	if v, ok := e.specialCall(site, key, cc, args, rt); ok {
		return v
	}

	// contract
	var fc *FuncContract
	if calleeSSA != nil {
		fc = e.W.Contracts.lookupSSA(calleeSSA)
	} else if calleeObj != nil {
		fc = e.W.Contracts.lookupFunc(calleeObj)
	}
	if fc != nil {
		fc.Used = true
		return e.callContract(site, key, fc, calleeSSA, calleeObj, args, argTypes, rt)
	}
	if ext, ok := e.W.Contracts.Externs[key]; ok {
		r := e.callExtern(site, key, ext, calleeObj, args, argTypes, rt)
		e.afterCallClock(r, rt)
		return r
	}
	kind, ok := defaultExternKind(key)
	if !ok && e.fc != nil && e.fc.DynNoEffect && (key == "dynamic call" || strings.HasPrefix(key, "dyn:") || strings.HasPrefix(key, "var:")) {
		kind, ok = "noeffect", true
		e.assumption("calls through function values in " + e.fnLabel + " are assumed not to touch modelled memory (dyncalls noeffect)")
	}
	if !ok {
		kind = "havoc"
		e.note("call to " + key + " has no contract: all heaps havocked")
	} else {
		e.assumption("default effect class for " + key + ": " + kind)
	}
	r := e.callByKind(site, key, kind, args, rt)
	e.afterCallClock(r, rt)
	return r
}

// afterCallClock: the callee may have allocated; whatever it returned exists now.
func (e *Enc) afterCallClock(res Value, rt types.Type) {
	h := e.cur.get(clockFam, arrSort(SInt, SInt))
	nc := e.freshConst("clock", SInt)
	e.assume(gt(nc, sel(h, intLit(0))), "the callee may allocate")
	e.cur.set(clockFam, e.define(fmt.Sprintf("%s@c%d", clockFam, e.nextID()), sto(h, intLit(0), nc)))
	if tv, ok := res.(TupleV); ok {
		if tt, ok := rt.(*types.Tuple); ok {
			for i, x := range tv.E {
				e.assume(e.olderThanNow(x, tt.At(i).Type()), "returned reference exists")
			}
		}
		return
	}
	e.assume(e.olderThanNow(res, rt), "returned reference exists")
}

func (e *Enc) callByKind(site ssa.Instruction, key, kind string, args []Value, rt types.Type) Value {
	defer func() {
		if kind == "noeffect" || kind == "havoc" {
			// results are assumed older than the clock in the callers of callByKind
		}
	}()
	switch kind {
	case "pure":
		v := e.pureApp(key, args, rt, e.cur, false)
		e.assume(rangeFact(v, rt), "result of "+key+" well typed")
		return v
	case "hpure":
		v := e.pureApp(key, args, rt, e.cur, true)
		e.assume(rangeFact(v, rt), "result of "+key+" well typed")
		return v
	case "noeffect":
		v := e.freshValue("r$"+sanitize(shortName(key)), rt)
		e.stdPost(key, v, rt)
		return v
	case "noreturn":
		// the callee never returns (panics or exits): the path ends here
		e.assume(tFalse, key+" does not return")
		return e.freshValue("r$"+sanitize(shortName(key)), rt)
	default:
		e.cur.havocAll()
		return e.freshValue("r$"+sanitize(shortName(key)), rt)
	}
}

// stdPost: well-known facts about results of standard functions.
func (e *Enc) stdPost(key string, v Value, rt types.Type) {
	switch key {
	case "fmt.Errorf", "errors.New":
		e.assume(not(eq(v.(Sc).T, intLit(0))), key+" returns a non-nil error")
	}
}

// bindParams builds the name -> value table for a callee.
func calleeParamNames(calleeSSA *ssa.Function, calleeObj *types.Func, n int, ext *ExternDecl) []string {
	names := make([]string, n)
	for i := range names {
		names[i] = fmt.Sprintf("a%d", i)
	}
	if ext != nil && len(ext.Params) > 0 {
		copy(names, ext.Params)
		return names
	}
	if calleeSSA != nil && len(calleeSSA.Params) == n {
		for i, p := range calleeSSA.Params {
			names[i] = p.Name()
		}
		return names
	}
	if calleeObj != nil {
		sig := calleeObj.Type().(*types.Signature)
		i := 0
		if sig.Recv() != nil && n == sig.Params().Len()+1 {
			if sig.Recv().Name() != "" {
				names[0] = sig.Recv().Name()
			} else {
				names[0] = "recv"
			}
			i = 1
		}
		for j := 0; j < sig.Params().Len() && i+j < n; j++ {
			if nm := sig.Params().At(j).Name(); nm != "" && nm != "_" {
				names[i+j] = nm
			}
		}
	}
	return names
}

func resultNames(sig *types.Signature) []string {
	res := sig.Results()
	names := make([]string, res.Len())
	for i := 0; i < res.Len(); i++ {
		names[i] = res.At(i).Name()
		if names[i] == "" || names[i] == "_" {
			names[i] = fmt.Sprintf("result%d", i)
			// an unnamed trailing error result can be called err
			if i == res.Len()-1 && res.At(i).Type().String() == "error" {
				names[i] = "err"
			}
		}
	}
	return names
}

func (e *Enc) calleePkg(calleeSSA *ssa.Function, calleeObj *types.Func) *types.Package {
	if calleeObj != nil && calleeObj.Pkg() != nil {
		return calleeObj.Pkg()
	}
	if calleeSSA != nil && calleeSSA.Pkg != nil {
		return calleeSSA.Pkg.Pkg
	}
	if calleeSSA != nil && calleeSSA.Parent() != nil {
		return e.calleePkg(calleeSSA.Parent(), nil)
	}
	return e.fn.Pkg.Pkg
}

func (e *Enc) instGhosts(fc *FuncContract, tag string) map[string]ghostInst {
	g := map[string]ghostInst{}
	for _, gf := range fc.Ghostfns {
		sym := fmt.Sprintf("ghost$%s$%s", gf.Name, tag)
		var sorts []string
		for _, p := range gf.Params {
			s, _ := (&SpecCtx{e: e, pkg: e.fn.Pkg.Pkg}).sortOfQVar(p.Type)
			sorts = append(sorts, s)
		}
		rs, _ := (&SpecCtx{e: e, pkg: e.fn.Pkg.Pkg}).sortOfQVar(gf.Ret)
		e.declareFun(sym, sorts, rs)
		g[gf.Name] = ghostInst{sym, gf}
	}
	return g
}

func letsOf(fc *FuncContract) map[string]*Macro {
	m := map[string]*Macro{}
	for i := range fc.Lets {
		m[fc.Lets[i].Name] = &fc.Lets[i]
	}
	return m
}

func (e *Enc) callContract(site ssa.Instruction, key string, fc *FuncContract, calleeSSA *ssa.Function, calleeObj *types.Func, args []Value, argTypes []types.Type, rt types.Type) Value {
	names := calleeParamNames(calleeSSA, calleeObj, len(args), nil)
	var sig *types.Signature
	if calleeSSA != nil {
		sig = calleeSSA.Signature
	} else {
		sig = calleeObj.Type().(*types.Signature)
	}
	short := shortName(key)
	e.callOrd[short]++
	k := e.callOrd[short]
	pre := e.cur.clone()
	ctx := &SpecCtx{e: e, heap: e.cur, old: pre, vars: map[string]TV{}, pkg: e.calleePkg(calleeSSA, calleeObj), lets: letsOf(fc), owner: fc, callee: true}
	ctx.ghost = e.instGhosts(fc, fmt.Sprintf("c%d", e.nextID()))
	for i, n := range names {
		ctx.vars[n] = TV{args[i], argTypes[i]}
	}
	// free variables of closures: bound by name to the captured cells
	if mc, ok := siteClosure(site); ok && calleeSSA != nil {
		for i, fv := range calleeSSA.FreeVars {
			pt := fv.Type().Underlying().(*types.Pointer)
			ref := e.sc(mc.Bindings[i])
			ctx.vars[fv.Name()] = TV{e.load(e.cur, locOfRef(ref, pt.Elem())), pt.Elem()}
		}
	}
	for _, a := range fc.Assumes {
		t, err := ctx.EvalBool(a.E)
		if err != nil {
			e.fatal("contract of %s: assume: %v", key, err)
		}
		e.assume(t, "definitional axiom of "+key)
	}
	for j, r := range fc.Requires {
		t, err := ctx.EvalBool(r.E)
		if err != nil {
			e.fatal("contract of %s: requires: %v", key, err)
		}
		e.assertOb(fmt.Sprintf("pre@%s#%d.%d", short, k, j+1), t, "precondition of "+short+": "+r.Src, posOf(site))
	}
	// frame
	if fc.ModAll {
		e.cur.havocAll()
	} else {
		for _, m := range fc.Modifies {
			e.havocSpecLoc(ctx, m, key)
		}
	}
	ctx.heap = e.cur
	// results
	var res Value
	rnames := resultNames(sig)
	if fc.Pure {
		res = e.pureApp(key, args, rt, pre, !fc.ValuePure)
		e.assume(rangeFact(res, rt), "result of "+key+" well typed")
	} else {
		res = e.freshValue("r$"+sanitize(short), rt)
	}
	switch sig.Results().Len() {
	case 0:
	case 1:
		ctx.vars[rnames[0]] = TV{res, sig.Results().At(0).Type()}
		ctx.vars["result"] = ctx.vars[rnames[0]]
	default:
		tv := res.(TupleV)
		for i, n := range rnames {
			ctx.vars[n] = TV{tv.E[i], sig.Results().At(i).Type()}
			ctx.vars[fmt.Sprintf("result%d", i)] = ctx.vars[n]
		}
	}
	for _, en := range fc.Ensures {
		t, err := ctx.EvalBool(en.E)
		if err != nil {
			e.fatal("contract of %s: ensures: %v", key, err)
		}
		e.assume(t, "postcondition of "+short+": "+en.Src)
	}
	for _, en := range fc.AssumedEnsures {
		t, err := ctx.EvalBool(en.E)
		if err != nil {
			e.fatal("contract of %s: assumed-ensures: %v", key, err)
		}
		e.assume(t, "ASSUMED postcondition of "+short+": "+en.Src)
		e.assumption("assumed (unchecked) postcondition of " + key + ": " + en.Src)
	}
	if fc.Trusted {
		e.assumption("contract of " + key + " is trusted (body not verified)")
	}
	e.afterCallClock(res, rt)
	return res
}

func siteClosure(site ssa.Instruction) (*ssa.MakeClosure, bool) {
	var cc *ssa.CallCommon
	switch s := site.(type) {
	case *ssa.Call:
		cc = &s.Call
	case *ssa.Defer:
		cc = &s.Call
	case *ssa.Go:
		cc = &s.Call
	}
	if cc == nil {
		return nil, false
	}
	mc, ok := cc.Value.(*ssa.MakeClosure)
	return mc, ok
}

func (e *Enc) callExtern(site ssa.Instruction, key string, ext *ExternDecl, calleeObj *types.Func, args []Value, argTypes []types.Type, rt types.Type) Value {
	e.assumption(fmt.Sprintf("extern %s declared %s with %d assumed postconditions", key, ext.Kind, len(ext.Ensures)))
	names := calleeParamNames(nil, calleeObj, len(args), ext)
	short := shortName(key)
	e.callOrd[short]++
	k := e.callOrd[short]
	pre := e.cur.clone()
	pkg := e.fn.Pkg.Pkg
	if calleeObj != nil && calleeObj.Pkg() != nil {
		pkg = calleeObj.Pkg()
	}
	ctx := &SpecCtx{e: e, heap: e.cur, old: pre, vars: map[string]TV{}, pkg: pkg, lets: map[string]*Macro{}, ghost: map[string]ghostInst{}}
	for i, n := range names {
		ctx.vars[n] = TV{args[i], argTypes[i]}
		ctx.vars[fmt.Sprintf("a%d", i)] = TV{args[i], argTypes[i]}
	}
	for j, r := range ext.Requires {
		t, err := ctx.EvalBool(r.E)
		if err != nil {
			e.fatal("extern %s: requires: %v", key, err)
		}
		e.assertOb(fmt.Sprintf("pre@%s#%d.%d", short, k, j+1), t, "precondition of "+short+": "+r.Src, posOf(site))
	}
	res := e.callByKind(site, key, ext.Kind, args, rt)
	for _, m := range ext.Modifies {
		e.havocSpecLoc(ctx, m, key)
	}
	ctx.heap = e.cur
	if calleeObj != nil {
		sig := calleeObj.Type().(*types.Signature)
		rnames := resultNames(sig)
		switch sig.Results().Len() {
		case 0:
		case 1:
			ctx.vars[rnames[0]] = TV{res, sig.Results().At(0).Type()}
			ctx.vars["result"] = ctx.vars[rnames[0]]
		default:
			tv := res.(TupleV)
			for i, n := range rnames {
				ctx.vars[n] = TV{tv.E[i], sig.Results().At(i).Type()}
				ctx.vars[fmt.Sprintf("result%d", i)] = ctx.vars[n]
			}
		}
	}
	for _, en := range ext.Ensures {
		t, err := ctx.EvalBool(en.E)
		if err != nil {
			e.fatal("extern %s: ensures: %v", key, err)
		}
		e.assume(t, "assumed postcondition of extern "+short+": "+en.Src)
	}
	return res
}

// havocSpecLoc havocs the location(s) denoted by a modifies expression.
func (e *Enc) havocSpecLoc(ctx *SpecCtx, m Expr, key string) {
	defer func() {
		if r := recover(); r != nil {
			if se, ok := r.(specError); ok {
				e.fatal("contract of %s: modifies %s: %s", key, m.String(), se.msg)
			}
			panic(r)
		}
	}()
	switch x := m.(type) {
	case *EIdent:
		tv := ctx.eval(x)
		if pt, ok := tv.T.Underlying().(*types.Pointer); ok {
			e.havocLoc(e.cur, locOfRef(tv.V.(Sc).T, pt.Elem()))
			return
		}
		ctx.fail("modifies: %s is not an addressable global", x.Name)
	case *ESel:
		base := ctx.eval(x.X)
		if gl, ok := ctx.ghostFieldLoc(base, x.F); ok {
			e.havocLoc(e.cur, gl)
			return
		}
		pt, ok := base.T.Underlying().(*types.Pointer)
		if !ok {
			ctx.fail("modifies: %s is not a pointer", x.X)
		}
		obj, index := lookupFieldAnyPkg(pt.Elem(), x.F)
		if obj == nil {
			ctx.fail("modifies: no field %s", x.F)
		}
		ref := base.V.(Sc).T
		t := pt.Elem()
		var l Loc
		for _, idx := range index {
			l = e.fieldLoc(ref, t, idx)
			ref = l.Ref
			t = l.Typ
		}
		e.havocLoc(e.cur, l)
	case *EIndex:
		base := ctx.eval(x.X)
		switch t := base.T.Underlying().(type) {
		case *types.Slice:
			sv := base.V.(SliceV)
			i := ctx.asInt(ctx.eval(x.I))
			e.havocLoc(e.cur, sliceElemLoc(sv, i, t.Elem()))
		case *types.Map:
			mi := e.mapInfoOf(base.T)
			if !mi.ok {
				e.cur.havocAll()
				return
			}
			// m[k] may be set or deleted
			k := e.mapKey(ctx.eval(x.I).V, mi.kt)
			mref := base.V.(Sc).T
			nv := e.freshValue("hv", t.Elem())
			e.mapSet(e.cur, mi, mref, k, nv)
			// presence is arbitrary
			dn := mi.fam + "#dom"
			das := arrSort(SInt, arrSort(mi.keySort, SBool))
			pres := e.freshConst("pres", SBool)
			dom := e.mapDom(e.cur, mi, mref)
			e.cur.set(dn, e.define(fmt.Sprintf("%s@s%d", dn, e.nextID()), sto(e.cur.get(dn, das), mref, sto(dom, k, pres))))
			lnn := mi.fam + "#len"
			nl := e.freshConst("len", SInt)
			e.assume(ge(nl, intLit(0)), "map length")
			e.cur.set(lnn, e.define(fmt.Sprintf("%s@s%d", lnn, e.nextID()), sto(e.cur.get(lnn, arrSort(SInt, SInt)), mref, nl)))
		default:
			ctx.fail("modifies: cannot index %s", base.T)
		}
	case *ECall:
		id, _ := x.Fn.(*EIdent)
		if id == nil {
			ctx.fail("modifies: unsupported form")
		}
		switch id.Name {
		case "elems": // all elements of a slice's backing array
			base := ctx.eval(x.Args[0])
			sv, ok := base.V.(SliceV)
			if !ok {
				ctx.fail("elems() of non-slice")
			}
			st := base.T.Underlying().(*types.Slice)
			e.havocElems(sv.Base, st.Elem())
		case "mapof": // whole content of one map
			base := ctx.eval(x.Args[0])
			mi := e.mapInfoOf(base.T)
			if !mi.ok {
				e.cur.havocAll()
				return
			}
			mref := base.V.(Sc).T
			for _, sfx := range e.mapHeapNames(mi) {
				old := e.cur.get(sfx.name, sfx.sort)
				_, inner, _ := isArrSort(sfx.sort)
				fresh := e.freshConst("hvmap", inner)
				e.cur.set(sfx.name, e.define(fmt.Sprintf("%s@s%d", sfx.name, e.nextID()), sto(old, mref, fresh)))
			}
			e.assume(ge(e.mapLen(e.cur, mi, mref), intLit(0)), "map length")
		case "deref":
			base := ctx.eval(x.Args[0])
			pt := base.T.Underlying().(*types.Pointer)
			e.havocLoc(e.cur, locOfRef(base.V.(Sc).T, pt.Elem()))
		case "allof": // allof(T.f): the whole heap family of a field
			for _, fam := range e.allofFams(ctx, x) {
				e.cur.set(fam, e.freshConst(fam+"@hv", e.famSortOr(fam)))
			}
			return
		default:
			ctx.fail("modifies: unknown form %s", id.Name)
		}
	default:
		ctx.fail("modifies: unsupported location expression")
	}
}

type heapName struct{ name, sort string }

func (e *Enc) mapHeapNames(mi mapInfo) []heapName {
	out := []heapName{
		{mi.fam + "#dom", arrSort(SInt, arrSort(mi.keySort, SBool))},
		{mi.fam + "#len", arrSort(SInt, SInt)},
	}
	for i, s := range mi.vsorts {
		out = append(out, heapName{fmt.Sprintf("%s#v%d", mi.fam, i), arrSort(SInt, arrSort(mi.keySort, s))})
	}
	return out
}

// havocElems: all cells of the backing array `base` get arbitrary values; other arrays keep theirs.
func (e *Enc) havocElems(base Term, elem types.Type) {
	for _, cp := range e.elemPaths(elem) {
		f := cp.fam
		old := e.cur.get(f.name, f.sort)
		nw := e.freshConst(f.name+"@hv", f.sort)
		e.cur.set(f.name, nw)
		if len(cp.steps) > 0 {
			// cells nested inside the elements (array or struct fields): the whole family is forgotten
			continue
		}
		e.assume(mk(SBool, "(forall ((r Int)) (! (=> (not (= r (eref %s (eref.idx r)))) (= (select %s r) (select %s r))) :pattern ((select %s r))))", base.S, nw.S, old.S, nw.S), "frame of element havoc")
	}
}

// ---------------------------------------------------------------------------
// cell paths: where the scalar leaves of an element of type T live, relative to the element's reference.

type pathStep struct {
	fref string // field-instance step (name of the fref function) when non-empty
	n    int64  // otherwise an array-index step over [0, n)
}

type cellPath struct {
	fam   heapName
	steps []pathStep
}

// elemPaths enumerates every heap family that stores part of a value of type elem located at a reference x,
// with the address steps leading from x to the cell (none for scalars, slices and plain struct fields).
func (e *Enc) elemPaths(elem types.Type) []cellPath {
	var out []cellPath
	var walk func(t types.Type, steps []pathStep)
	leaf := func(fam string, t types.Type, steps []pathStep) {
		st := append([]pathStep{}, steps...)
		if shapeKindOf(t) == kSlice {
			for _, sfx := range []string{"#base", "#off", "#len", "#cap"} {
				out = append(out, cellPath{heapName{fam + sfx, arrSort(SInt, SInt)}, st})
			}
			return
		}
		out = append(out, cellPath{heapName{fam, arrSort(SInt, scalarSort(t))}, st})
	}
	walk = func(t types.Type, steps []pathStep) {
		if !isOpaque(t) {
			switch u := t.Underlying().(type) {
			case *types.Struct:
				for i := 0; i < u.NumFields(); i++ {
					f := u.Field(i)
					l := e.fieldLoc(intLit(0), t, i)
					if l.Kind == locInst {
						walk(f.Type(), append(append([]pathStep{}, steps...), pathStep{fref: e.frefName(t, f.Name())}))
					} else {
						leaf(fieldFam(t, f.Name()), f.Type(), steps)
					}
				}
				return
			case *types.Array:
				walk(u.Elem(), append(append([]pathStep{}, steps...), pathStep{n: u.Len()}))
				return
			}
		}
		leaf(cellFam(t), t, steps)
	}
	walk(elem, nil)
	return out
}

// pathAddr applies the steps to an element reference; js are the index terms of the index steps in order.
func pathAddr(x string, steps []pathStep, js []string) string {
	a := x
	k := 0
	for _, st := range steps {
		if st.fref != "" {
			a = fmt.Sprintf("(%s %s)", smtSym(st.fref), a)
		} else {
			a = fmt.Sprintf("(eref %s %s)", a, js[k])
			k++
		}
	}
	return a
}

// pathUpdateAxiom: nw equals old except that the cells (along cp) of the elements dLo <= i < dHi of the
// backing array dBase hold the corresponding cells of the source elements srcRef(i) (or the value srcVal(i)).
func (e *Enc) pathUpdateAxiom(nw, old Term, cp cellPath, dBase, dLo, dHi Term, srcRef func(i string) string, srcVal func(i string) string) Term {
	cur := "r"
	var conds []string
	var jsRev []string
	for k := len(cp.steps) - 1; k >= 0; k-- {
		st := cp.steps[k]
		if st.fref == "" {
			conds = append(conds, fmt.Sprintf("(= %s (eref (eref.base %s) (eref.idx %s)))", cur, cur, cur),
				fmt.Sprintf("(<= 0 (eref.idx %s))", cur), fmt.Sprintf("(< (eref.idx %s) %d)", cur, st.n))
			jsRev = append(jsRev, fmt.Sprintf("(eref.idx %s)", cur))
			cur = fmt.Sprintf("(eref.base %s)", cur)
		} else {
			inv := smtSym(st.fref + ".inv")
			conds = append(conds, fmt.Sprintf("(= %s (%s (%s %s)))", cur, smtSym(st.fref), inv, cur))
			cur = fmt.Sprintf("(%s %s)", inv, cur)
		}
	}
	var js []string
	for i := len(jsRev) - 1; i >= 0; i-- {
		js = append(js, jsRev[i])
	}
	x := cur
	i := fmt.Sprintf("(eref.idx %s)", x)
	conds = append(conds, fmt.Sprintf("(= (eref.base %s) %s)", x, dBase.S), fmt.Sprintf("(= %s (eref %s %s))", x, dBase.S, i),
		fmt.Sprintf("(<= %s %s)", dLo.S, i), fmt.Sprintf("(< %s %s)", i, dHi.S))
	var val string
	if srcVal != nil {
		val = srcVal(i)
	} else {
		val = fmt.Sprintf("(select %s %s)", old.S, pathAddr(srcRef(i), cp.steps, js))
	}
	return mk(SBool, "(forall ((r Int)) (! (= (select %s r) (ite (and %s) %s (select %s r))) :pattern ((select %s r))))",
		nw.S, strings.Join(conds, " "), val, old.S, nw.S)
}

// pathCopyFact: for 0 <= qi < n the cells (along cp) of element dst(qi) equal those of element src(qi), in heap hm.
func (e *Enc) pathCopyFact(hm Term, cp cellPath, n Term, dst, src func(qi Term) Term) Term {
	vars := []string{"(qi! Int)"}
	conds := []string{"(<= 0 qi!)", fmt.Sprintf("(< qi! %s)", n.S)}
	var js []string
	k := 0
	for _, st := range cp.steps {
		if st.fref == "" {
			v := fmt.Sprintf("qj%d!", k)
			k++
			vars = append(vars, "("+v+" Int)")
			conds = append(conds, fmt.Sprintf("(<= 0 %s)", v), fmt.Sprintf("(< %s %d)", v, st.n))
			js = append(js, v)
		}
	}
	qi := Term{"qi!", SInt}
	da := pathAddr(dst(qi).S, cp.steps, js)
	sa := pathAddr(src(qi).S, cp.steps, js)
	return mk(SBool, "(forall (%s) (! (=> (and %s) (= (select %s %s) (select %s %s))) :pattern ((select %s %s)) :pattern ((select %s %s))))",
		strings.Join(vars, " "), strings.Join(conds, " "), hm.S, da, hm.S, sa, hm.S, da, hm.S, sa)
}

func (e *Enc) elemFams(elem types.Type) []heapName {
	switch shapeKindOf(elem) {
	case kSlice:
		var out []heapName
		for _, sfx := range []string{"#base", "#off", "#len", "#cap"} {
			out = append(out, heapName{cellFam(elem) + sfx, arrSort(SInt, SInt)})
		}
		return out
	case kStruct:
		st := elem.Underlying().(*types.Struct)
		var out []heapName
		for i := 0; i < st.NumFields(); i++ {
			ft := st.Field(i).Type()
			fam := fieldFam(elem, st.Field(i).Name())
			switch shapeKindOf(ft) {
			case kSlice:
				for _, sfx := range []string{"#base", "#off", "#len", "#cap"} {
					out = append(out, heapName{fam + sfx, arrSort(SInt, SInt)})
				}
			case kScalar:
				if _, isArr := ft.Underlying().(*types.Array); isArr && !isOpaque(ft) {
					continue
				}
				out = append(out, heapName{fam, arrSort(SInt, scalarSort(ft))})
			}
		}
		return out
	}
	return []heapName{{cellFam(elem), arrSort(SInt, scalarSort(elem))}}
}

// ---------------------------------------------------------------------------
// deferred calls

func (e *Enc) runDefers(x *ssa.RunDefers) {
	if r, ok := x.Block().Instrs[len(x.Block().Instrs)-1].(*ssa.Return); ok && e.fc != nil {
		e.atReturnClauses(r, true, nil)
	}
	for i := len(e.defers) - 1; i >= 0; i-- {
		d := e.defers[i]
		if d.Block() == x.Block() || d.Block().Dominates(x.Block()) {
			e.call(d, &d.Call, resultTypeOf(&d.Call))
		} else {
			e.note("conditional defer not modelled precisely")
		}
	}
}

func resultTypeOf(cc *ssa.CallCommon) types.Type {
	sig := cc.Signature()
	switch sig.Results().Len() {
	case 0:
		return types.NewTuple()
	case 1:
		return sig.Results().At(0).Type()
	}
	return sig.Results()
}

func (e *Enc) famSortOr(fam string) string {
	if s, ok := e.famSorts[fam]; ok {
		return s
	}
	return arrSort(SInt, SInt)
}

// allofFams resolves allof(T.f) to heap family names.
func (e *Enc) allofFams(ctx *SpecCtx, x *ECall) []string {
	s, ok := x.Args[0].(*ESel)
	if !ok {
		ctx.fail("allof(T.f) expected")
	}
	tname := ""
	switch tx := s.X.(type) {
	case *EIdent:
		tname = tx.Name
	case *ESel:
		if q, ok := tx.X.(*EIdent); ok {
			tname = q.Name + "." + tx.F
		}
	}
	if tname == "" {
		ctx.fail("allof(T.f) expected")
	}
	t := ctx.resolveType(tname)
	if t == nil {
		ctx.fail("allof: unknown type %s", tname)
	}
	obj, index := lookupFieldAnyPkg(t, s.F)
	if obj == nil || len(index) != 1 {
		ctx.fail("allof: no direct field %s", s.F)
	}
	ft := t.Underlying().(*types.Struct).Field(index[0]).Type()
	fam := fieldFam(t, s.F)
	if shapeKindOf(ft) == kSlice {
		var out []string
		for _, sfx := range []string{"#base", "#off", "#len", "#cap"} {
			e.famSorts[fam+sfx] = arrSort(SInt, SInt)
			out = append(out, fam+sfx)
		}
		return out
	}
	e.famSorts[fam] = arrSort(SInt, scalarSort(ft))
	return []string{fam}
}

// atCallAsserts discharges the `at call` assertions attached to this call site.
func (e *Enc) atCallAsserts(site ssa.Instruction, key string, args []Value, argTypes []types.Type) {
	e.atCallAssertsPhase(site, key, args, argTypes, false, nil, nil)
}

func (e *Enc) atCallAssertsPhase(site ssa.Instruction, key string, args []Value, argTypes []types.Type, after bool, res Value, rt types.Type) {
	if e.fc == nil || len(e.fc.AtCalls) == 0 {
		return
	}
	matched := false
	for i := range e.fc.AtCalls {
		if strings.HasSuffix(key, e.fc.AtCalls[i].Callee) {
			matched = true
		}
	}
	if !matched {
		return
	}
	e.atOrd[key]++
	for i := range e.fc.AtCalls {
		ac := &e.fc.AtCalls[i]
		if !strings.HasSuffix(key, ac.Callee) || ac.After != after {
			continue
		}
		// the ordinal counts the call sites matching this clause's callee pattern in source order
		if e.siteOrdinal(site, ac.Callee) != ac.Ord {
			continue
		}
		ac.Used = true
		ctx := e.baseCtx()
		ctx.heap = e.cur
		ctx.at = site.Block()
		for k := range args {
			ctx.vars[fmt.Sprintf("a%d", k)] = TV{args[k], argTypes[k]}
		}
		if after && res != nil {
			ctx.vars["result"] = TV{res, rt}
		}
		for idx, in := range site.Block().Instrs {
			if in == site {
				ctx.atIdx = idx
			}
		}
		t, err := ctx.EvalBool(ac.C.E)
		if err != nil && !ac.Assume && strings.Contains(err.Error(), "unknown identifier") {
			// the call site the clause now lands on does not have the clause's variables in scope: the code
			// the clause was written for is gone
			e.unstatable = append(e.unstatable, fmt.Sprintf("%s: at call %s#%d: %v (in `%s`)", e.fnLabel, ac.Callee, ac.Ord, err, ac.C.Src))
			continue
		}
		if err != nil {
			e.fatal("at call %s#%d: %v", ac.Callee, ac.Ord, err)
		}
		if ac.Assume {
			e.assume(t, "ghost binding after call to "+ac.Callee+": "+ac.C.Src)
			e.assumption("ghost binding (assumed) after call to " + ac.Callee + " in " + e.fnLabel + ": " + ac.C.Src)
			continue
		}
		e.assertOb(fmt.Sprintf("at@%s#%d.%d", shortName(ac.Callee), ac.Ord, i+1), t, "assertion before call to "+ac.Callee+": "+ac.C.Src, posOf(site))
	}
}

// ghost call counters: calls("name") in specifications
func (e *Enc) bumpCallCount(key string) {
	fam := "L$CALLS$" + sanitize(key)
	e.callKeys[key] = fam
	as := arrSort(SInt, SInt)
	cur := e.cur.get(fam, as)
	e.cur.set(fam, e.define(fmt.Sprintf("%s@c%d", fam, e.nextID()), sto(cur, intLit(0), add(sel(cur, intLit(0)), intLit(1)))))
}

func (e *Enc) callCount(h *HeapState, suffix string) Term {
	if e.callQueries == nil {
		e.callQueries = map[string]bool{}
	}
	if !e.noCallsQuery {
		e.callQueries[suffix] = true
	}
	var ts []Term
	var keys []string
	for k := range e.callKeys {
		keys = append(keys, k)
	}
	sort.Strings(keys)
	for _, k := range keys {
		if strings.HasSuffix(k, suffix) {
			cur := sel(h.get(e.callKeys[k], arrSort(SInt, SInt)), intLit(0))
			base := sel(e.entry.get(e.callKeys[k], arrSort(SInt, SInt)), intLit(0))
			ts = append(ts, sub(cur, base))
		}
	}
	if len(ts) == 0 {
		return intLit(0)
	}
	if len(ts) == 1 {
		return ts[0]
	}
	return app(SInt, "+", ts...)
}

// callKeyOf computes the callee key of a call instruction the same way call() does (static part only).
func callKeyOf(cc *ssa.CallCommon) string {
	if b, ok := cc.Value.(*ssa.Builtin); ok {
		return "builtin:" + b.Name()
	}
	if cc.IsInvoke() {
		return "(" + typeKey(cc.Value.Type()) + ")." + cc.Method.Name()
	}
	if f := cc.StaticCallee(); f != nil {
		if o, ok := f.Object().(*types.Func); ok {
			return funcKey(o)
		}
		if f.Origin() != nil {
			if o, ok := f.Origin().Object().(*types.Func); ok {
				return funcKey(o)
			}
		}
		return f.String()
	}
	if u, ok := cc.Value.(*ssa.UnOp); ok {
		if g, ok := u.X.(*ssa.Global); ok && g.Pkg != nil {
			return "var:" + g.Pkg.Pkg.Path() + "." + g.Name()
		}
	}
	if n, ok := cc.Value.Type().(*types.Named); ok {
		return "dyn:" + n.Obj().Name()
	}
	// a function value held in a parameter or a captured variable is named after it
	switch v := cc.Value.(type) {
	case *ssa.Parameter:
		return "dyn:" + v.Name()
	case *ssa.FreeVar:
		return "dyn:" + v.Name()
	case *ssa.UnOp:
		if fv, ok := v.X.(*ssa.FreeVar); ok {
			return "dyn:" + fv.Name()
		}
		// a function value held in a struct field (x.callback(...)) is named after the field
		if fa, ok := v.X.(*ssa.FieldAddr); ok {
			if pt, ok := fa.X.Type().Underlying().(*types.Pointer); ok {
				if st, ok := pt.Elem().Underlying().(*types.Struct); ok && fa.Field < st.NumFields() {
					return "dyn:" + st.Field(fa.Field).Name()
				}
			}
		}
	case *ssa.Field:
		if st, ok := v.X.Type().Underlying().(*types.Struct); ok && v.Field < st.NumFields() {
			return "dyn:" + st.Field(v.Field).Name()
		}
	}
	// a function value held in a named local (e.g. the element variable of a range loop)
	if refs := cc.Value.Referrers(); refs != nil {
		for _, r := range *refs {
			if d, ok := r.(*ssa.DebugRef); ok && !d.IsAddr {
				if id, ok := d.Expr.(*ast.Ident); ok {
					return "dyn:" + id.Name
				}
			}
		}
	}
	return "dynamic call"
}

// siteOrdinal: 1-based position of `site` among the call sites of the function whose callee key ends
// with `pattern`, ordered by source position.
func (e *Enc) siteOrdinal(site ssa.Instruction, pattern string) int {
	type cs struct {
		in  ssa.Instruction
		pos token.Pos
		ord int
	}
	var sites []cs
	n := 0
	for _, b := range e.fn.Blocks {
		for _, in := range b.Instrs {
			var cc *ssa.CallCommon
			switch x := in.(type) {
			case *ssa.Call:
				cc = &x.Call
			case *ssa.Defer:
				cc = &x.Call
			case *ssa.Go:
				cc = &x.Call
			}
			if cc == nil {
				continue
			}
			if strings.HasSuffix(callKeyOf(cc), pattern) {
				n++
				sites = append(sites, cs{in, in.Pos(), n})
			}
		}
	}
	sort.SliceStable(sites, func(i, j int) bool {
		if sites[i].pos != sites[j].pos {
			return sites[i].pos < sites[j].pos
		}
		return sites[i].ord < sites[j].ord
	})
	for i, s := range sites {
		if s.in == site {
			return i + 1
		}
	}
	return 0
}

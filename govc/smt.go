package main

import (
	"fmt"
	"math/big"
	"strings"
)

// Term is an SMT-LIB term with its sort.
type Term struct {
	S    string
	Sort string
}

const (
	SInt  = "Int"
	SBool = "Bool"
	SStr  = "Str"
	SReal = "Real"
)

func arrSort(k, v string) string { return "(Array " + k + " " + v + ")" }

func isArrSort(s string) (k, v string, ok bool) {
	if !strings.HasPrefix(s, "(Array ") {
		return "", "", false
	}
	body := s[len("(Array ") : len(s)-1]
	// split at top-level space
	depth := 0
	for i := 0; i < len(body); i++ {
		switch body[i] {
		case '(':
			depth++
		case ')':
			depth--
		case ' ':
			if depth == 0 {
				return body[:i], body[i+1:], true
			}
		}
	}
	return "", "", false
}

func mk(sort, format string, a ...interface{}) Term {
	return Term{fmt.Sprintf(format, a...), sort}
}

func intLit(n int64) Term {
	if n < 0 {
		return Term{fmt.Sprintf("(- %d)", -n), SInt}
	}
	return Term{fmt.Sprintf("%d", n), SInt}
}

func bigLit(n *big.Int) Term {
	if n.Sign() < 0 {
		return Term{"(- " + new(big.Int).Neg(n).String() + ")", SInt}
	}
	return Term{n.String(), SInt}
}

func pow2(k uint) *big.Int { return new(big.Int).Lsh(big.NewInt(1), k) }

var tTrue = Term{"true", SBool}
var tFalse = Term{"false", SBool}

func boolLit(b bool) Term {
	if b {
		return tTrue
	}
	return tFalse
}

func app(sort, f string, args ...Term) Term {
	var sb strings.Builder
	sb.WriteString("(")
	sb.WriteString(f)
	for _, a := range args {
		sb.WriteString(" ")
		sb.WriteString(a.S)
	}
	sb.WriteString(")")
	return Term{sb.String(), sort}
}

func and(ts ...Term) Term {
	var xs []Term
	for _, t := range ts {
		if t.S == "true" {
			continue
		}
		if t.S == "false" {
			return tFalse
		}
		xs = append(xs, t)
	}
	switch len(xs) {
	case 0:
		return tTrue
	case 1:
		return xs[0]
	}
	return app(SBool, "and", xs...)
}

func or(ts ...Term) Term {
	var xs []Term
	for _, t := range ts {
		if t.S == "false" {
			continue
		}
		if t.S == "true" {
			return tTrue
		}
		xs = append(xs, t)
	}
	switch len(xs) {
	case 0:
		return tFalse
	case 1:
		return xs[0]
	}
	return app(SBool, "or", xs...)
}

func not(t Term) Term {
	if t.S == "true" {
		return tFalse
	}
	if t.S == "false" {
		return tTrue
	}
	if strings.HasPrefix(t.S, "(not ") {
		return Term{t.S[5 : len(t.S)-1], SBool}
	}
	return app(SBool, "not", t)
}

func implies(a, b Term) Term {
	if a.S == "true" {
		return b
	}
	if a.S == "false" || b.S == "true" {
		return tTrue
	}
	return app(SBool, "=>", a, b)
}

func eq(a, b Term) Term {
	if a.S == b.S {
		return tTrue
	}
	return app(SBool, "=", a, b)
}

func ite(c, a, b Term) Term {
	if c.S == "true" {
		return a
	}
	if c.S == "false" {
		return b
	}
	if a.S == b.S {
		return a
	}
	return app(a.Sort, "ite", c, a, b)
}

func sel(arr, i Term) Term {
	_, v, ok := isArrSort(arr.Sort)
	if !ok {
		panic("select on non-array sort " + arr.Sort + " term " + arr.S)
	}
	return app(v, "select", arr, i)
}

func sto(arr, i, v Term) Term {
	return app(arr.Sort, "store", arr, i, v)
}

func add(a, b Term) Term {
	ca, oka := constInt(a)
	cb, okb := constInt(b)
	switch {
	case oka && okb:
		return bigLit(new(big.Int).Add(ca, cb))
	case oka && ca.Sign() == 0:
		return b
	case okb && cb.Sign() == 0:
		return a
	}
	return app(SInt, "+", a, b)
}

func sub(a, b Term) Term {
	ca, oka := constInt(a)
	cb, okb := constInt(b)
	switch {
	case oka && okb:
		return bigLit(new(big.Int).Sub(ca, cb))
	case okb && cb.Sign() == 0:
		return a
	}
	return app(SInt, "-", a, b)
}
func mul(a, b Term) Term { return app(SInt, "*", a, b) }
func le(a, b Term) Term  { return app(SBool, "<=", a, b) }
func lt(a, b Term) Term  { return app(SBool, "<", a, b) }
func ge(a, b Term) Term  { return app(SBool, ">=", a, b) }
func gt(a, b Term) Term  { return app(SBool, ">", a, b) }

// smtSym quotes a symbol if needed.
func smtSym(s string) string {
	ok := true
	for _, c := range s {
		if !(c >= 'a' && c <= 'z' || c >= 'A' && c <= 'Z' || c >= '0' && c <= '9' || strings.ContainsRune("_.$@!%~&*+-<>=/?^", c)) {
			ok = false
			break
		}
	}
	if ok && len(s) > 0 && !(s[0] >= '0' && s[0] <= '9') {
		return s
	}
	s = strings.ReplaceAll(s, "|", "!")
	s = strings.ReplaceAll(s, "\\", "!")
	return "|" + s + "|"
}

// constant array
func constArr(sort string, v Term) Term {
	return Term{fmt.Sprintf("((as const %s) %s)", sort, v.S), sort}
}

func zeroOfSort(sort string) Term {
	switch sort {
	case SInt:
		return intLit(0)
	case SBool:
		return tFalse
	case SStr:
		return Term{"s.empty", SStr}
	case SReal:
		return Term{"0.0", SReal}
	}
	if _, v, ok := isArrSort(sort); ok {
		return constArr(sort, zeroOfSort(v))
	}
	panic("zeroOfSort: " + sort)
}

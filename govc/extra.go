package main

import (
	"encoding/json"
	"fmt"
	"os"
	"os/exec"
	"path/filepath"
	"regexp"
	"strings"
	"time"
)

var reBounded = regexp.MustCompile(`BOUNDED cases=(\d+) distinct=(\d+) bound="([^"]*)"`)

// runExtra runs an additional engine of a property check.
//
//	bounded:<name>:<pkg rel>:<TestName>  - a bounded stand-in: an exhaustive/enumerating Go test in
//	/verif/bounded/<name>_bounded_test.go executed on the real code through `go test -overlay`.
func runExtra(spec string, cfg *PropConfig, tier string, w *World) *FuncReport {
	parts := strings.Split(spec, ":")
	switch parts[0] {
	case "bounded":
		if len(parts) != 4 {
			return &FuncReport{Label: spec, Err: fmt.Errorf("bad extra spec %q", spec)}
		}
		return runBounded(parts[1], parts[2], parts[3], tier)
	case "layout":
		return runLayout(cfg, w)
	}
	return &FuncReport{Label: spec, Err: fmt.Errorf("unknown extra engine %q", spec)}
}

func runBounded(name, pkgRel, test, tier string) *FuncReport {
	rep := &FuncReport{Label: "bounded:" + name + " (" + pkgRel + "." + test + ")", Name: test, PkgPath: modPath + "/" + pkgRel}
	tmp, err := os.MkdirTemp("", "govc-bounded-")
	if err != nil {
		rep.Err = err
		return rep
	}
	defer os.RemoveAll(tmp)
	src := filepath.Join(verifDir(), "bounded", name+"_bounded_test.go")
	ov := map[string]map[string]string{"Replace": {filepath.Join(repoDir, pkgRel, "zz_verif_bounded_test.go"): src}}
	b, _ := json.Marshal(ov)
	ovf := filepath.Join(tmp, "ov.json")
	os.WriteFile(ovf, b, 0o644)
	cmd := exec.Command("go", "test", "-overlay", ovf, "-vet=off", "-count=1", "-timeout", "3000s", "-run", "^"+test+"$", "-v", "./"+pkgRel)
	cmd.Dir = repoDir
	cmd.Env = append(os.Environ(), "GOFLAGS=-mod=mod", "VERIF_TIER="+tier)
	t0 := time.Now()
	out, runErr := cmd.CombinedOutput()
	txt := string(out)
	ms := time.Since(t0).Milliseconds()
	ob := ObResult{Name: "bounded:" + name + "/" + test, Solver: "go test (bounded enumeration on the real code)", Ms: ms}
	if m := reBounded.FindStringSubmatch(txt); m != nil && runErr == nil {
		ob.Status = "ok"
		ob.Desc = "BOUNDED (not a proof): " + m[1] + " cases over " + m[2] + " configurations; bound: " + m[3]
		rep.Notes = append(rep.Notes, ob.Desc)
	} else if i := strings.Index(txt, "BOUNDED-VIOLATION:"); i >= 0 {
		line := txt[i:]
		if j := strings.Index(line, "\n"); j >= 0 {
			line = line[:j]
		}
		ob.Status = "bounded-violation"
		ob.Desc = line
		ob.Output = truncate(txt, 4000)
		ob.Model = line
	} else if strings.Contains(txt, "panic:") {
		ob.Status = "bounded-violation"
		ob.Desc = "the enumeration panicked"
		ob.Output = truncate(txt, 4000)
		ob.Model = firstLineWith(txt, "panic:")
	} else {
		rep.Err = fmt.Errorf("bounded test %s could not be built or run: %s", test, truncate(txt, 600))
		return rep
	}
	rep.Obligations = append(rep.Obligations, ob)
	rep.Assumptions = append(rep.Assumptions, "bounded stand-in "+name+": enumeration only, labelled bounded, never counted as proved")
	return rep
}

func firstLineWith(txt, needle string) string {
	for _, l := range strings.Split(txt, "\n") {
		if strings.Contains(l, needle) {
			return l
		}
	}
	return ""
}

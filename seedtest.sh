#!/bin/bash
# usage: seedtest.sh <property id> <patch file>  -- applies a seeded change to /repo, runs the quick check, reverts.
# Evidence and replay files of this run go to a scratch directory, never to /verif/evidence.
id=$1; patch=$2
cd /repo || exit 2
if ! git diff --quiet; then echo "repo dirty"; exit 2; fi
git apply "$patch" || { echo "PATCH DOES NOT APPLY"; exit 2; }
vd=$(mktemp -d /var/tmp/verif-seedtest.XXXXXX)
for f in props.json known_findings.txt spec replay bounded solver_hints.json; do ln -s /verif/$f $vd/$f; done
VERIF_DIR=$vd /verif/bin/govc check "$id" --tier quick > $vd/out.txt 2>&1; rc=$?
git checkout -- .
grep -E "^VIOLATION|^UNDECIDED|^KNOWN|^property" $vd/out.txt | cut -c1-200 | sed "s|$vd|<scratch>|g"
rm -rf $vd
echo "exit=$rc"

#!/bin/bash
# usage: seedtest.sh <property id> <patch file>  -- applies a seeded change to /repo, runs the quick check, reverts
id=$1; patch=$2
cd /repo || exit 2
if ! git diff --quiet; then echo "repo dirty"; exit 2; fi
git apply "$patch" || { echo "PATCH DOES NOT APPLY"; exit 2; }
/verif/bin/govc check "$id" --tier quick > /tmp/seedtest.out 2>&1; rc=$?
git checkout -- . 
grep -E "^VIOLATION|^UNDECIDED|^KNOWN|^property" /tmp/seedtest.out | cut -c1-200
echo "exit=$rc"

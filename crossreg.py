#!/usr/bin/env python3
# Registers every function under (checked) contract with every claimed property
#  (a) whose anchor files contain the function's source file, or
#  (b) that reaches it in the (textual, over-approximated) call graph from the functions of its anchor files or from
#      functions already registered for it: a property depends on everything its code calls, and a change inside a callee
#      is only noticed by the callee's own contract.
# (b) matches calls by bare name: same-package calls, pkg-qualified calls, and method calls whose name is carried by at most
#     three contracted functions (generic names like String/Close/Match are followed only inside the same package).
import json,re,os,collections
props=[json.loads(l) for l in open('/verif/properties.jsonl')]
P=json.load(open('/verif/props.json'))
D={e['id']:e for e in P}
contracts={}
for root,_,fs in os.walk('/repo'):
    for f in fs:
        if f=='zz_verif_contracts.go':
            pkg=os.path.relpath(root,'/repo'); cur=None
            for l in open(os.path.join(root,f)):
                m=re.match(r'//@ func (.+?)\s*$',l)
                if m: cur=(pkg,m.group(1)); contracts[cur]=False; continue
                if cur and re.match(r'//@\s+trusted\s*$',l): contracts[cur]=True
checked=[c for c,t in contracts.items() if not t]
def base(name): return re.sub(r'^\(.*\)\.','',name.split('$')[0])
byname=collections.defaultdict(list)
for c in checked: byname[base(c[1])].append(c)
# function bodies of the whole repo (non-test go files)
bodies={}   # (pkg, name) -> text
filefuncs=collections.defaultdict(set)
for root,dirs,fs in os.walk('/repo'):
    if '/.git' in root: continue
    for f in fs:
        if not f.endswith('.go') or f.endswith('_test.go') or f=='zz_verif_contracts.go': continue
        path=os.path.join(root,f); pkg=os.path.relpath(root,'/repo')
        src=open(path,errors='replace').read().split('\n'); i=0
        while i<len(src):
            m=re.match(r'^func (\([^)]*\) )?([A-Za-z_0-9]+)[\[(]',src[i])
            if m:
                j=i
                while j<len(src) and src[j]!='}': j+=1
                recv=m.group(1); name=m.group(2)
                if recv:
                    r=recv.strip()[1:-1].split()[-1]; r=re.sub(r'\[.*\]','',r); name='(%s).%s'%(r,name)
                bodies[(pkg,name)]='\n'.join(src[i+1:j]); filefuncs[os.path.relpath(path,'/repo')].add((pkg,name))
                i=j
            i+=1
def callees(fn):
    pkg=fn[0]; body=bodies.get((pkg,fn[1].split('$')[0]))
    out=set()
    if body is None: return out
    for m in re.finditer(r'(?:([A-Za-z_][A-Za-z_0-9]*)\.)?([A-Za-z_][A-Za-z_0-9]*)\(',body):
        q,n=m.group(1),m.group(2)
        cands=byname.get(n)
        if not cands: continue
        for c in cands:
            if c[0]==pkg: out.add(c)                                   # same package (function or method)
            elif q and os.path.basename(c[0])==q and not c[1].startswith('('): out.add(c)   # pkg.Func
            elif q and c[1].startswith('(') and len(cands)<=3: out.add(c)  # x.Method with a rare name
    return out
added_a=added_b=0
for p in props:
    if p['id'] not in D: continue
    have={(f['pkg'],f['name']) for f in D[p['id']]['functions']}
    start=set()
    for f in p['anchors']['files']:
        if f in filefuncs:
            start|=filefuncs[f]
            for c in checked:
                if (c[0],c[1].split('$')[0]) in filefuncs[f] and c not in have:
                    D[p['id']]['functions'].append({'pkg':c[0],'name':c[1]}); have.add(c); added_a+=1
    work=list(start|have); seen=set(work)
    while work:
        fn=work.pop()
        for c in callees(fn):
            if c not in have:
                D[p['id']]['functions'].append({'pkg':c[0],'name':c[1]}); have.add(c); added_b+=1
            if c not in seen: seen.add(c); work.append(c)
json.dump(P,open('/verif/props.json','w'),indent=1)
print('added by anchor file',added_a,'by call graph',added_b)
for e in P: print(e['id'],len(e['functions']))

#!/usr/bin/env python3
# Registers every function under contract with every claimed property whose anchor files contain the function's source file.
import json,re,os
props=[json.loads(l) for l in open('/verif/properties.jsonl')]
P=json.load(open('/verif/props.json'))
D={e['id']:e for e in P}
contracts=[]
for root,_,fs in os.walk('/repo'):
    for f in fs:
        if f=='zz_verif_contracts.go':
            pkg=os.path.relpath(root,'/repo')
            cur=None
            for l in open(os.path.join(root,f)):
                m=re.match(r'//@ func (.+?)\s*$',l)
                if m: cur=(pkg,m.group(1)); contracts.append([cur,False]); continue
                if cur and re.match(r'//@\s+trusted\s*$',l): contracts[-1][1]=True
def funcs_in(path):
    out=set()
    src=open(path).read()
    for m in re.finditer(r'^func (\([^)]*\) )?([A-Za-z_0-9]+)[\[(]',src,re.M):
        recv=m.group(1); name=m.group(2)
        if recv:
            r=recv.strip()[1:-1].split()[-1]; r=re.sub(r'\[.*\]','',r)
            out.add('(%s).%s'%(r,name))
        else: out.add(name)
    return out
cache={}
added=0
for p in props:
    if p['id'] not in D: continue
    have={(f['pkg'],f['name']) for f in D[p['id']]['functions']}
    for f in p['anchors']['files']:
        path='/repo/'+f
        if not (os.path.isfile(path) and f.endswith('.go') and not f.endswith('_test.go')): continue
        pkg=os.path.dirname(f)
        if path not in cache: cache[path]=funcs_in(path)
        for (c,trusted) in contracts:
            if trusted or c[0]!=pkg: continue
            base=c[1].split('$')[0]
            if base in cache[path] and c not in have:
                D[p['id']]['functions'].append({'pkg':c[0],'name':c[1]}); have.add(c); added+=1
json.dump(P,open('/verif/props.json','w'),indent=1)
print('added',added)
for e in P: print(e['id'],len(e['functions']))

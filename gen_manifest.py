#!/usr/bin/env python3
# Generates MANIFEST.json from props.json + manifest_meta.json (kept valid at all times).
import json, subprocess
props = json.load(open('/verif/props.json'))
meta = json.load(open('/verif/manifest_meta.json'))
try:
    hooks = subprocess.run(['git','-C','/repo','log','--format=%H','--grep=^verif-hook:'],capture_output=True,text=True).stdout.split()
except Exception:
    hooks = []
checks = []
for p in props:
    m = meta['checks'].get(p['id'], {})
    checks.append({
        "property_id": p['id'],
        "quick_cmd": f"/verif/bin/govc check {p['id']} --tier quick",
        "thorough_cmd": f"/verif/bin/govc check {p['id']} --tier thorough",
        "evidence_file": f"/verif/evidence/{p['id']}.json",
        "replay_cmd_template": "/verif/bin/govc replay {path}",
        "engine": "govc",
        "level_claimed": {"category": p['level'], "text": m.get('text', p['explanation']), "design_ref": m.get('design_ref', 'DESIGN.md §4 ' + p['id'])},
        "level_note": m.get('note', '; '.join(p.get('trusted_base', []) + ['NOT decided: ' + u for u in p.get('undecided_clauses', [])])),
        "technique": m.get('technique', 'contract-based deductive verification: weakest-precondition VCs generated from go/ssa of the real functions, contracts as //@ comments in /repo, discharged by z3/cvc5'),
    })
claimed = {p['id'] for p in props}
na = [x for x in meta['not_applicable'] if x['property_id'] not in claimed]
man = {
 "version": 1,
 "setup_cmd": "cd /verif/govc && GOFLAGS=-mod=vendor GOPROXY=off GOSUMDB=off GOTOOLCHAIN=local PATH=/opt/veriftools/go1.26.8/bin:$PATH go build -o /verif/bin/govc .",
 "hooks": {
  "guard": "verif",
  "enable": "go build -tags verif,dae_stub_ebpf ./... (the hook files are comment-only contract files zz_verif_contracts.go; govc reads them as text and type-checks /repo with these tags)",
  "baseline_off_cmd": meta['baseline_off_cmd'],
  "source_commits": hooks,
  "add_only": True
 },
 "engines": [{"name": "govc", "path": "/verif/govc", "serves_properties": sorted(claimed), "kind_free_text": "self-written deductive verifier for Go: go/ssa -> passive program -> SMT-LIB obligations, contracts in //@ comment files, z3/cvc5 portfolio"}],
 "checks": checks,
 "not_applicable": na,
 "notes": meta.get('notes', '')
}
json.dump(man, open('/verif/MANIFEST.json','w'), indent=1)
print("checks:", len(checks), "not_applicable:", len(na))

#!/bin/bash
# Runs every claimed check concurrently (worst-case load) on the unchanged tree; none may alarm.
out=${STRESS_TMP:-/var/tmp/verif-stress}; rm -rf "$out"; mkdir -p "$out"
ids=$(python3 -c "import json; print(' '.join(sorted(e['id'] for e in json.load(open('/verif/props.json')))))")
for id in $ids; do
  ( vd=$out/vd_$id; mkdir -p $vd; for f in props.json known_findings.txt spec replay bounded solver_hints.json; do ln -sf /verif/$f $vd/$f; done
    VERIF_DIR=$vd /verif/bin/govc check $id --tier quick > $out/$id.log 2>&1; echo "$id rc=$?" >> $out/summary.txt ) &
done
wait
sort $out/summary.txt
grep -h "^VIOLATION\|^UNDECIDED" $out/C*.log | cut -c1-200
grep -h "^property" $out/C*.log | awk '{print $2, $NF}' | tr '\n' ' '; echo
bad=$(grep -vc "rc=0" $out/summary.txt); rm -rf "$out"; echo "stress: $bad checks alarmed"

#!/usr/bin/env python3
# Lists, per claimed property, the functions of its anchor files that have no contract (or only a trusted one), with their size.
import json,re,os,sys
props=[json.loads(l) for l in open('/verif/properties.jsonl')]
P={e['id']:e for e in json.load(open('/verif/props.json'))}
contracts={}
for root,_,fs in os.walk('/repo'):
    for f in fs:
        if f=='zz_verif_contracts.go':
            pkg=os.path.relpath(root,'/repo'); cur=None
            for l in open(os.path.join(root,f)):
                m=re.match(r'//@ func (.+?)\s*$',l)
                if m: cur=(pkg,m.group(1).split('$')[0]); contracts.setdefault(cur,'checked'); continue
                if cur and re.match(r'//@\s+trusted\s*$',l): contracts[cur]='trusted'
def funcs(path):
    src=open(path).read().split('\n'); out=[]
    i=0
    while i<len(src):
        m=re.match(r'^func (\([^)]*\) )?([A-Za-z_0-9]+)[\[(]',src[i])
        if m:
            j=i
            while j<len(src) and src[j]!='}': j+=1
            recv=m.group(1); name=m.group(2)
            if recv:
                r=recv.strip()[1:-1].split()[-1]; r=re.sub(r'\[.*\]','',r); name='(%s).%s'%(r,name)
            out.append((name,j-i+1))
            i=j
        i+=1
    return out
want=sys.argv[1:] 
tot=cov=0
for p in props:
    if p['id'] not in P or (want and p['id'] not in want): continue
    print('==',p['id'])
    for f in p['anchors']['files']:
        path='/repo/'+f
        if not (os.path.isfile(path) and f.endswith('.go') and not f.endswith('_test.go')): continue
        pkg=os.path.dirname(f)
        for name,n in funcs(path):
            st=contracts.get((pkg,name))
            tot+=1
            if st=='checked': cov+=1; continue
            if n>=int(os.environ.get('MINLINES','8')): print('  %-8s %4d  %s: %s'%(st or '-',n,f,name))
print('functions in anchor files (with repeats):',tot,'checked:',cov)

#!/bin/bash
# Runs every claimed check (quick tier by default) sequentially on /repo as it is and rewrites /verif/evidence.
tier=${1:-quick}
cd /verif || exit 2
ids=$(python3 -c "import json; print(' '.join(sorted(e['id'] for e in json.load(open('/verif/props.json')))))")
rc=0
for id in $ids; do
  ./bin/govc check $id --tier $tier 2>&1 | grep -E "^VIOLATION|^UNDECIDED|^KNOWN|^property" | cut -c1-220
  [ ${PIPESTATUS[0]} -ne 0 ] && rc=1
done
exit $rc
